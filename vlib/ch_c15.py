"""CrossHair harness for spatial_orbitals._has_valid_combination (as it is): the
recursive search over one spin map per tensor.  Topology (which index sits on which
tensor) and the number of candidate maps are concrete per condition; the spins every
candidate assigns and the pre-assigned target spin are symbolic."""
from . import chrun

TOPOLOGIES = {
    # name: index ids per tensor (index 0 is the pre-assigned target)
    "triangle": ((0, 1), (1, 2), (0, 2)),
    "chain": ((0, 1), (1, 2), (2, 3)),
    "ladder": ((0, 1), (2, 3), (1, 2)),
}


def ch_conditions(tier):
    quick = tier == "quick"
    conds = []
    from itertools import product
    for (name, topo), first in product(TOPOLOGIES.items(), product((True, False), repeat=4)):
        # the spins assigned by the two candidates of the first tensor are concrete per
        # condition (16 variants), everything else is symbolic; the pre-assigned target is
        # alpha (the kernel is symmetric under the global spin flip)
        ncand = 2
        args = []
        for t in range(1, len(topo)):
            for c in range(ncand):
                for k in range(len(topo[t])):
                    args.append(f"s{t}{c}{k}: bool")
        tag = "".join("a" if x else "b" for x in first)
        consts = "t0 = True\n" + "\n".join(
            f"s0{c}{k} = {first[2 * c + k]}" for c in range(ncand) for k in range(2))
        maps = []
        for t, idx in enumerate(topo):
            cands = []
            for c in range(ncand):
                a = ", ".join(f"({i} if s{t}{c}{k} else None)" for k, i in enumerate(idx))
                b = ", ".join(f"(None if s{t}{c}{k} else {i})" for k, i in enumerate(idx))
                cands.append("{" + f'"a": set(x for x in ({a},) if x is not None), '
                             f'"b": set(x for x in ({b},) if x is not None)' + "}")
            maps.append("[" + ", ".join(cands) + "]")
        sel_loops = "\n".join("    " * (t + 1) + f"for c{t} in range({ncand}):" for t in range(len(topo)))
        ind = "    " * (len(topo) + 1)
        body = f"""
from adcgen.spatial_orbitals import _has_valid_combination

TOPO = {topo!r}
{consts}


def h_valid_{name}_{tag}({', '.join(args)}) -> bool:
    '''
    post: _
    '''
    maps = [{', '.join(maps)}]
    spin = {{}}
    for t, idx in enumerate(TOPO):
        for c in range({ncand}):
            for k, i in enumerate(idx):
                spin[(t, c, k)] = (i in maps[t][c]["a"])
    variant = {{"a": set([0]) if t0 else set(), "b": set() if t0 else set([0])}}
    got = _has_valid_combination(maps, 0, variant)
    # reference: some selection of one candidate per tensor assigns every index one spin only
    expect = False
{sel_loops}
{ind}assign = {{0: t0}}
{ind}ok = True
{ind}for t, c in enumerate(({', '.join(f'c{t}' for t in range(len(topo)))},)):
{ind}    for k, i in enumerate(TOPO[t]):
{ind}        s = spin[(t, c, k)]
{ind}        if assign.setdefault(i, s) != s:
{ind}            ok = False
{ind}if ok:
{ind}    expect = True
    return got == expect
"""
        conds.append(chrun.Condition(f"valid_combination_{name}_{tag}", body, timeout=150 if quick else 1500))
    conds.append(chrun.Condition("valid_combination_tw__reach",
                                 chrun.twin(conds[0].src, "valid_triangle_aaaa"), timeout=60, expect="refuted"))
    return conds
