"""
E2: independent determinant-space second quantisation.

Occupation bit strings:  a_p |S> = (-1)^{popcount(S & (2^p - 1))} |S xor 2^p>
if bit p is set, else 0;  a+_p likewise if bit p is clear.  No code is shared
with adcgen's Wick machinery.

Two uses
  (a) `vev_circuit`  - <Phi| op string |Phi> as a z3 term with one symbolic
      orbital position per index (C01 a);
  (b) concrete determinants with polynomial coefficients (poly.SP): vectors,
      operators, power series in the perturbation parameter (C01 b, C02-C05, C12).
"""
from fractions import Fraction
from itertools import combinations

from .poly import SP

CRE, ANN = "+", "-"


# -----------------------------------------------------------------------------
# concrete bit-string algebra
# -----------------------------------------------------------------------------
def popcount_below(det: int, p: int) -> int:
    return bin(det & ((1 << p) - 1)).count("1")


def apply_op(kind: str, p: int, det: int):
    """Returns (sign, det') or None."""
    bit = 1 << p
    if kind == ANN:
        if not det & bit:
            return None
    else:
        if det & bit:
            return None
    sign = -1 if popcount_below(det, p) & 1 else 1
    return sign, det ^ bit


def apply_string(ops, det: int):
    """ops = [(kind, orbital), ...] written left to right as in the operator
    product; applied to |det> right to left."""
    sign = 1
    for kind, p in reversed(ops):
        r = apply_op(kind, p, det)
        if r is None:
            return None
        sign *= r[0]
        det = r[1]
    return sign, det


def reference_det(n_o: int) -> int:
    return (1 << n_o) - 1


def vev_concrete(ops, n_o: int) -> int:
    ref = reference_det(n_o)
    r = apply_string(ops, ref)
    if r is None or r[1] != ref:
        return 0
    return r[0]


def normal_order_concrete(ops, n_o):
    """Definition of the normal-ordered product w.r.t. |Phi>: stable partition
    into quasi-creators (a+_virt, a_occ) left of quasi-annihilators, times the
    sign of that permutation."""
    def is_qc(kind, p):
        return (kind == CRE) == (p >= n_o)
    tagged = [(0 if is_qc(k, p) else 1, n) for n, (k, p) in enumerate(ops)]
    order = sorted(tagged)              # stable: by (class, original position)
    perm = [n for _, n in order]
    inv = sum(1 for a in range(len(perm)) for b in range(a + 1, len(perm))
              if perm[a] > perm[b])
    return (-1 if inv & 1 else 1), [ops[n] for n in perm]


def dets_with(n_orb: int, n_el: int):
    for occ in combinations(range(n_orb), n_el):
        d = 0
        for p in occ:
            d |= 1 << p
        yield d


# -----------------------------------------------------------------------------
# vectors with polynomial coefficients
# -----------------------------------------------------------------------------
class Vec:
    __slots__ = ("c",)

    def __init__(self, c=None):
        self.c = c if c is not None else {}

    def copy(self):
        return Vec(dict(self.c))

    def add(self, det, coef):
        if isinstance(coef, SP):
            if coef.is_zero():
                return
        elif not coef:
            return
        else:
            coef = SP.const(coef)
        cur = self.c.get(det)
        if cur is None:
            self.c[det] = coef
        else:
            s = cur + coef
            if s.is_zero():
                del self.c[det]
            else:
                self.c[det] = s

    def __add__(self, o):
        r = self.copy()
        for d, c in o.c.items():
            r.add(d, c)
        return r

    def __sub__(self, o):
        r = self.copy()
        for d, c in o.c.items():
            r.add(d, -c)
        return r

    def scale(self, s):
        r = Vec()
        for d, c in self.c.items():
            r.add(d, c * s)
        return r

    def dot(self, o):
        """<self|o> with real coefficients (no conjugation)."""
        tot = SP()
        a, b = (self, o) if len(self.c) <= len(o.c) else (o, self)
        for d, c in a.c.items():
            c2 = b.c.get(d)
            if c2 is not None:
                tot = tot + c * c2
        return tot

    def is_zero(self):
        return not self.c


def apply_string_vec(ops, vec: Vec, coef=1) -> Vec:
    out = Vec()
    for det, c in vec.c.items():
        r = apply_string(ops, det)
        if r is None:
            continue
        out.add(r[1], c * (coef * r[0]) if not isinstance(coef, SP) else c * coef * r[0])
    return out


class Hamiltonian:
    """
    One- and two-body operator with polynomial matrix elements.

    one(p, q)        -> SP   coefficient of a+_p a_q
    two(p, q, r, s)  -> SP   coefficient of a+_p a+_q a_s a_r  for p<q, r<s
                             (the restricted sum equals 1/4 sum_pqrs <pq||rs> ...)
    """

    def __init__(self, n_orb, one=None, two=None):
        self.n = n_orb
        self.one, self.two = one, two

    def apply(self, vec: Vec) -> Vec:
        out = Vec()
        n = self.n
        for det, c in vec.c.items():
            occ = [p for p in range(n) if det >> p & 1]
            if self.one is not None:
                for q in occ:
                    r1 = apply_op(ANN, q, det)
                    for p in range(n):
                        r2 = apply_op(CRE, p, r1[1])
                        if r2 is None:
                            continue
                        h = self.one(p, q)
                        if h.is_zero():
                            continue
                        out.add(r2[1], c * h * (r1[0] * r2[0]))
            if self.two is not None:
                for r, s in combinations(occ, 2):        # r < s
                    a1 = apply_op(ANN, r, det)
                    a2 = apply_op(ANN, s, a1[1])
                    d2 = a2[1]
                    sg = a1[0] * a2[0]                     # a_s a_r |det>
                    for p in range(n):
                        if d2 >> p & 1:
                            continue
                        for q in range(p + 1, n):
                            if d2 >> q & 1:
                                continue
                            v = self.two(p, q, r, s)
                            if v.is_zero():
                                continue
                            c1 = apply_op(CRE, q, d2)
                            c2 = apply_op(CRE, p, c1[1])
                            out.add(c2[1], c * v * (sg * c1[0] * c2[0]))
        return out


# -----------------------------------------------------------------------------
# (a) symbolic-position vev circuit (z3)
# -----------------------------------------------------------------------------
def vev_circuit(z3, ops, pos, n_o, n_orb, groups=None):
    """
    <Phi| ops |Phi> as a z3 Int term.

    ops    : [(kind, index_key)] left to right
    pos    : {index_key: z3 Int}  symbolic orbital positions
    groups : optional list of (start, stop) slices of `ops` that are
             normal-ordered groups; each group is replaced by its definition
             (case split over the quasi-particle character of its operators).
    """
    if not groups:
        return _vev_plain(z3, ops, pos, n_o, n_orb)
    # expand the first group into its cases, recurse on the rest
    (a, b), rest = groups[0], groups[1:]
    grp = ops[a:b]
    k = len(grp)
    total = z3.IntVal(0)
    for mask in range(1 << k):
        # bit n set  <=> operator n of the group acts on a virtual orbital
        conds = []
        for n, (kind, key) in enumerate(grp):
            virt = bool(mask >> n & 1)
            conds.append(pos[key] >= n_o if virt else pos[key] < n_o)
        # quasi-creator: a+ on virt or a on occ
        tagged = []
        for n, (kind, key) in enumerate(grp):
            virt = bool(mask >> n & 1)
            qc = (kind == CRE) == virt
            tagged.append((0 if qc else 1, n))
        perm = [n for _, n in sorted(tagged)]
        inv = sum(1 for x in range(k) for y in range(x + 1, k) if perm[x] > perm[y])
        sign = -1 if inv & 1 else 1
        new_ops = ops[:a] + [grp[n] for n in perm] + ops[b:]
        val = vev_circuit(z3, new_ops, pos, n_o, n_orb, rest)
        total = total + z3.If(z3.And(*conds), sign * val, 0)
    return total


def _vev_plain(z3, ops, pos, n_o, n_orb):
    occ = [z3.BoolVal(k < n_o) for k in range(n_orb)]
    alive = z3.BoolVal(True)
    neg = z3.BoolVal(False)
    for kind, key in reversed(ops):
        x = pos[key]
        here = [x == k for k in range(n_orb)]
        # number of occupied orbitals below x is odd?
        par = z3.BoolVal(False)
        below = z3.BoolVal(False)
        for k in range(n_orb):
            # parity of occupied orbitals j < x
            par = z3.Xor(par, z3.And(x > k, occ[k]))
        if kind == ANN:
            ok = z3.Or(*[z3.And(here[k], occ[k]) for k in range(n_orb)])
            occ = [z3.And(occ[k], z3.Not(here[k])) for k in range(n_orb)]
        else:
            ok = z3.Or(*[z3.And(here[k], z3.Not(occ[k])) for k in range(n_orb)])
            occ = [z3.Or(occ[k], here[k]) for k in range(n_orb)]
        alive = z3.And(alive, ok)
        neg = z3.Xor(neg, par)
    back = z3.And(*[occ[k] == z3.BoolVal(k < n_o) for k in range(n_orb)])
    return z3.If(z3.And(alive, back), z3.If(neg, -1, 1), 0)


# -----------------------------------------------------------------------------
# (b) reference value of  tensors x operator string  by concrete determinants
# -----------------------------------------------------------------------------
def _ops_of_term(term):
    """Splits an IR term into (commuting factors, [(kind, idx)], groups)."""
    comm, ops, groups = [], [], []
    for f in term[2]:
        if f[0] == "F":
            ops.append((ANN, f[1]))
        elif f[0] == "Fd":
            ops.append((CRE, f[1]))
        elif f[0] == "NO":
            a = len(ops)
            for o in f[1]:
                ops.append((ANN if o[0] == "F" else CRE, o[1]))
            groups.append((a, len(ops)))
        else:
            comm.append(f)
    return comm, ops, groups


def block_string(model, U, L):
    def sp(o):
        return "o" if model.is_occ(o) else "v"
    return "".join(sorted(sp(o) for o in U)) + "".join(sorted(sp(o) for o in L))


def opterm_value(terms, model, val, tau, forbidden=None):
    """
    sum_terms sum_{all indices not in tau}  prod tensors * <Phi| ops |Phi>
    with the normal-ordered groups replaced by their definition, evaluated on
    concrete bit strings.  forbidden = {tensor name: set(block strings)}: an
    assignment that puts a tensor on a forbidden block contributes nothing.
    """
    from . import ir as IR
    from .poly import _factor_value, ml_mul
    out = []
    n_o = model.n_o
    for term in terms:
        comm, ops, groups = _ops_of_term(term)
        idxs = sorted(IR.term_index_set(term) - set(tau))
        ranges = [model.idx_range(s) for s in idxs]
        base = [(term[0], ())]
        for p, _ in term[1]:
            base = ml_mul(base, val.root(p))

        def rec(d, asg):
            if d == len(idxs):
                cops = [(k, asg[s]) for k, s in ops]
                sign = 1
                # replace groups by their definition, right to left keeps slices valid
                for a, b in groups:
                    sg, new = normal_order_concrete(cops[a:b], n_o)
                    sign *= sg
                    cops[a:b] = new
                v = vev_concrete(cops, n_o) if cops else 1
                if not v:
                    return
                acc = base
                for f in comm:
                    if forbidden and f[0] == "t" and f[1] in forbidden:
                        U = tuple(asg[s] for s in f[3])
                        L = tuple(asg[s] for s in f[4])
                        # the block of an amplitude is worded lower before upper
                        bs = block_string(model, L, U) if f[2] == "M" else block_string(model, U, L)
                        if bs in forbidden[f[1]]:
                            return
                    fv = _factor_value(f, asg, val)
                    if not fv:
                        return
                    acc = ml_mul(acc, fv)
                out.extend((c * sign * v, m) for c, m in acc)
                return
            s = idxs[d]
            for o in ranges[d]:
                asg[s] = o
                rec(d + 1, asg)
            del asg[s]

        rec(0, dict(tau))
    return out


class GenOp:
    """
    D = sum_{p1<p2<.., r1<r2<..} d[p1 p2 ..| r1 r2 ..] a+_p1 a+_p2 .. a_r(na) .. a_r1
    (= 1/(nc! na!) times the unrestricted sum for an antisymmetric d).
    coef(P, R) -> SP
    """

    def __init__(self, n_orb, nc, na, coef):
        self.n, self.nc, self.na, self.coef = n_orb, nc, na, coef

    def apply(self, vec: Vec) -> Vec:
        out = Vec()
        n = self.n
        for det, c in vec.c.items():
            occ = [p for p in range(n) if det >> p & 1]
            for R in combinations(occ, self.na):
                d1, sg = det, 1
                for r in R:                      # a_r1 acts first
                    x = apply_op(ANN, r, d1)
                    sg *= x[0]
                    d1 = x[1]
                free = [p for p in range(n) if not d1 >> p & 1]
                for P in combinations(free, self.nc):
                    v = self.coef(P, R)
                    if v.is_zero():
                        continue
                    d2, sg2 = d1, sg
                    for p in reversed(P):        # a+_p(nc) acts first, a+_p1 last
                        x = apply_op(CRE, p, d2)
                        sg2 *= x[0]
                        d2 = x[1]
                    out.add(d2, c * v * sg2)
        return out
