"""
Common driver plumbing: tiers, seeds, worker pool, case records, violations,
known findings, evidence files, exit codes.

Exit codes: 0 held on everything explored; 1 violation (not a known finding);
3 harness error (non-reproducing model, self-test failure, vacuous check).
"""
import hashlib
import json
import multiprocessing as mp
import os
import signal
import sys
import time
import traceback

ROOT = os.path.dirname(os.path.dirname(os.path.abspath(__file__)))
EVIDENCE_DIR = os.path.join(ROOT, "evidence" if "VERIF_REPO" not in os.environ else "evidence_scratch")
REPLAY_DIR = os.path.join(EVIDENCE_DIR, "replay")
KNOWN = os.path.join(ROOT, "known_findings.json")
REPO = os.environ.get("VERIF_REPO", "/repo")   # checks always run against /repo; the override only serves scratch evaluation of seeded changes


def seed() -> int:
    try:
        return int(os.environ.get("VERIF_SEED", "0"))
    except ValueError:
        return 0


def src_hash(*relpaths):
    h = hashlib.sha256()
    for p in relpaths:
        with open(os.path.join(REPO, p), "rb") as fh:
            h.update(fh.read())
    return h.hexdigest()[:16]


class CaseTimeout(Exception):
    pass


def _alarm(signum, frame):
    raise CaseTimeout()


def _worker(args):
    fn, item, limit = args
    signal.signal(signal.SIGALRM, _alarm)
    signal.alarm(int(limit))
    t0 = time.time()
    try:
        r = fn(item)
    except CaseTimeout:
        r = {"status": "timeout", "item": _short(item)}
    except Exception as exc:  # noqa - CrossHair-style BaseExceptions pass through
        r = {"status": "error", "item": _short(item),
             "error": f"{type(exc).__name__}: {exc}",
             "trace": traceback.format_exc()[-1500:]}
    finally:
        signal.alarm(0)
    if isinstance(r, dict):
        r.setdefault("wall_s", round(time.time() - t0, 3))
    return r


def _short(x, n=300):
    s = repr(x)
    return s if len(s) <= n else s[:n] + "..."


def pmap(fn, items, workers=None, limit=300, chunksize=1):
    """Run fn over items in a fork pool; each call is bounded by `limit` s."""
    items = list(items)
    if workers is None:
        workers = min(16, os.cpu_count() or 4)
    workers = max(1, min(workers, len(items)))
    if workers == 1 or os.environ.get("VERIF_SERIAL"):
        return [_worker((fn, it, limit)) for it in items]
    ctx = mp.get_context("fork")
    with ctx.Pool(workers, maxtasksperchild=50) as pool:
        return pool.map(_worker, [(fn, it, limit) for it in items], chunksize)


class Run:
    def __init__(self, pid: str, tier: str, level: str):
        self.pid, self.tier, self.level = pid, tier, level
        self.t0 = time.time()
        self.cov = {
            "programs": 0, "disagreements_checked": 0, "samples": [],
            "evaluations": 0, "distinct_nontrivial": 0, "rule": "",
            "queries": {"unsat": 0, "sat": 0, "unknown": 0, "stage2": 0},
            "solver_s": 0.0, "encode_s": 0.0,
            "inconclusive": [], "functions_encoded": [], "bounds": {},
            "parts": {},
        }
        self.assumptions = []
        self.violations = []        # (fingerprint, what, payload)
        self.known_hit = []
        self.harness_errors = []
        self._distinct = set()
        self._known = self._load_known()

    # -- known findings ----------------------------------------------------------
    def _load_known(self):
        try:
            with open(KNOWN) as fh:
                data = json.load(fh)
        except FileNotFoundError:
            return []
        return [f for f in data.get("findings", []) if f.get("property") == self.pid]

    def _match_known(self, fingerprint: str):
        for f in self._known:
            if f.get("fingerprint") == fingerprint:
                return f
            pre = f.get("fingerprint_prefix")
            if pre and fingerprint.startswith(pre):
                return f
        return None

    # -- recording ----------------------------------------------------------------
    def part(self, name):
        return self.cov["parts"].setdefault(name, {
            "cases": 0, "equal": 0, "differ": 0, "unknown": 0, "skipped": 0,
            "errors": 0})

    def sample(self, s, cap=12):
        if len(self.cov["samples"]) < cap:
            self.cov["samples"].append(s)

    def add_outcome(self, part, outcome: dict, sample=None, distinct_key=None,
                    nontrivial=True):
        """outcome: dict from tv.Outcome.as_dict() (+ optional fields)."""
        p = self.part(part)
        p["cases"] += 1
        self.cov["evaluations"] += 1
        st = outcome.get("status")
        if st == "equal":
            p["equal"] += 1
        elif st == "differ":
            p["differ"] += 1
        elif st == "unknown":
            p["unknown"] += 1
            self.cov["inconclusive"].append(
                {"part": part, "case": _short(sample, 200), "note": outcome.get("note", "")})
        elif st in ("error", "timeout"):
            p["errors"] += 1
            self.cov["inconclusive"].append(
                {"part": part, "case": _short(sample if sample is not None else outcome.get("item"), 200),
                 "note": outcome.get("error", st)})
        else:
            p["skipped"] += 1
        if st in ("equal", "differ", "unknown"):
            self.cov["programs"] += 1
        q = self.cov["queries"]
        for k in ("unsat", "sat", "unknown", "stage2"):
            q[k] += outcome.get(k, 0) if k != "unknown" else outcome.get("unknown", 0)
        self.cov["solver_s"] += outcome.get("solver_s", 0.0)
        self.cov["encode_s"] += outcome.get("encode_s", 0.0)
        if nontrivial and st in ("equal", "differ") and distinct_key is not None:
            self._distinct.add(distinct_key)
        if sample is not None:
            self.sample(sample)

    def violation(self, fingerprint: str, what: str, payload: dict):
        self.cov["disagreements_checked"] += 1
        k = self._match_known(fingerprint)
        if k is not None:
            self.known_hit.append((k, what))
        else:
            self.violations.append((fingerprint, what, payload))

    def harness_error(self, what: str):
        self.harness_errors.append(what)

    # -- finishing ------------------------------------------------------------------
    def finish(self, explanation=""):
        os.makedirs(EVIDENCE_DIR, exist_ok=True)
        cov = self.cov
        cov["distinct_nontrivial"] = len(self._distinct)
        cov["solver_s"] = round(cov["solver_s"], 3)
        cov["encode_s"] = round(cov["encode_s"], 3)
        cov["inconclusive"] = cov["inconclusive"][:40]
        cov["n_inconclusive"] = sum(p["unknown"] + p["errors"]
                                    for p in cov["parts"].values())
        cov["known_findings_hit"] = [k.get("id") for k, _ in self.known_hit]
        cov["harness_errors"] = self.harness_errors[:10]
        if explanation:
            cov["explanation"] = explanation
        if not cov["samples"]:
            cov["samples"] = ["(no case produced a sample)"]
        ev = {
            "property_id": self.pid, "tier": self.tier, "seed": seed(),
            "level": self.level, "coverage": cov,
            "assumptions": self.assumptions,
            "wall_s": round(time.time() - self.t0, 2),
            "violations": len(self.violations),
        }
        with open(os.path.join(EVIDENCE_DIR, f"{self.pid}.json"), "w") as fh:
            json.dump(ev, fh, indent=1, default=str)
        seen = set()
        for k, what in self.known_hit:
            if k.get("id") in seen:
                continue
            seen.add(k.get("id"))
            print(f"KNOWN-FINDING: property={self.pid} {k.get('what', what)}")
        code = 0
        if self.violations:
            os.makedirs(REPLAY_DIR, exist_ok=True)
            for n, (fp, what, payload) in enumerate(self.violations[:20]):
                path = os.path.join(REPLAY_DIR, f"{self.pid}-{n}.json")
                payload = dict(payload)
                payload.update({"property": self.pid, "fingerprint": fp, "what": what})
                with open(path, "w") as fh:
                    json.dump(payload, fh, indent=1, default=str)
                print(f"VIOLATION property={self.pid} replay={path}")
                print(f"  {what}")
            code = 1
        elif self.harness_errors:
            for h in self.harness_errors[:10]:
                print(f"HARNESS-ERROR property={self.pid} {h}", file=sys.stderr)
            code = 3
        q = cov["queries"]
        print(f"[{self.pid} {self.tier}] programs={cov['programs']} "
              f"unsat={q['unsat']} sat={q['sat']} unknown={q['unknown']} "
              f"stage2={q['stage2']} inconclusive={cov['n_inconclusive']} "
              f"distinct={cov['distinct_nontrivial']} "
              f"solver={cov['solver_s']}s wall={ev['wall_s']}s exit={code}")
        return code
