"""CrossHair harness sources for C08 (container shapes concrete, entries symbolic)."""
from . import chrun, srcgen

PRELUDE = """
from typing import Dict, List, Tuple
_fresh = [0]
def _fresh_index():
    _fresh[0] -= 1
    return _fresh[0] - 1000
"""


def ch_conditions(tier):
    quick = tier == "quick"
    tmo = 120 if quick else 600
    ids = 5 if quick else 6
    conds = []

    def add(name, src, reach=True):
        conds.append(chrun.Condition(name, src, timeout=tmo))
        if reach:
            conds.append(chrun.Condition(name + "__reach", chrun.twin(src, name),
                                         timeout=60, expect="refuted"))

    os_src = srcgen.regenerate("adcgen/indices.py", "order_substitutions",
                               new_name="k_order_substitutions",
                               call_map={"Index": "_fresh_index"})
    from itertools import permutations, product
    # k = 1, 2: keys and values symbolic
    for k in (1, 2):
        args = ", ".join(f"k{n}: int, v{n}: int" for n in range(k))
        rng_pre = " and ".join(f"0 <= k{n} < {ids} and 0 <= v{n} < {ids}" for n in range(k))
        distinct = " and ".join(f"k{a} != k{b}" for a in range(k)
                                for b in range(a + 1, k)) or "True"
        entries = ", ".join(f"k{n}: v{n}" for n in range(k))
        h = os_src + f"""

def h_order_subs_{k}({args}) -> bool:
    '''
    pre: {rng_pre}
    pre: {distinct}
    post: _
    '''
    _fresh[0] = 0
    m = {{{entries}}}
    subs = k_order_substitutions(dict(m))
    ok = True
    for x in range({ids}):
        y = x
        for old, new in subs:
            if y == old:
                y = new
        if y != m.get(x, x):
            ok = False
    return ok
"""
        add(f"order_subs_{k}", h, reach=(k == 2))
    # k >= 3: every ordered tuple of distinct keys concretely (insertion order
    # matters), values symbolic; one module per first key
    for k in ([3] if quick else [3, 4]):
        for first in range(ids):
            body = os_src
            nf = 0
            for keys in permutations(range(ids), k):
                if keys[0] != first:
                    continue
                args = ", ".join(f"v{n}: int" for n in range(k))
                pre = " and ".join(f"0 <= v{n} < {ids}" for n in range(k))
                entries = ", ".join(f"{keys[n]}: v{n}" for n in range(k))
                tag = "".join(map(str, keys))
                body += f"""

def h_os{k}_{tag}({args}) -> bool:
    '''
    pre: {pre}
    post: _
    '''
    _fresh[0] = 0
    m = {{{entries}}}
    subs = k_order_substitutions(dict(m))
    ok = True
    for x in range({ids}):
        y = x
        for old, new in subs:
            if y == old:
                y = new
        if y != m.get(x, x):
            ok = False
    return ok
"""
                nf += 1
            conds.append(chrun.Condition(f"order_subs_{k}_first{first}", body,
                                         timeout=tmo, n_funcs=nf))

    pm_src = srcgen.regenerate("adcgen/expr_container.py", "Container.permute",
                               new_name="k_permute", cut_return_to="sub")
    for k in range(1, (3 if quick else 4) + 1):
        # first elements of the transpositions concrete, partners symbolic
        for first in range(4):
            body = pm_src
            nf = 0
            for ps in product(range(4), repeat=k):
                if ps[0] != first:
                    continue
                args = ", ".join(f"q{n}: int" for n in range(k))
                pre = " and ".join(f"0 <= q{n} < 4 and q{n} != {ps[n]}" for n in range(k))
                lst = ", ".join(f"({ps[n]}, q{n})" for n in range(k))
                tag = "".join(map(str, ps))
                body += f"""

def h_pm{k}_{tag}({args}) -> bool:
    '''
    pre: {pre}
    post: _
    '''
    perms = [{lst}]
    sub = k_permute(None, *perms)
    ok = True
    for x in range(4):
        y = x
        for p, q in perms:       # transpositions one after another
            if y == p:
                y = q
            elif y == q:
                y = p
        if sub.get(x, x) != y:
            ok = False
    return ok
"""
                nf += 1
            conds.append(chrun.Condition(f"permute_{k}_first{first}", body,
                                         timeout=tmo, n_funcs=nf))
    # reachability twin for the permute family
    tw = pm_src + """

def h_permute_tw(q0: int, q1: int) -> bool:
    '''
    pre: 0 <= q0 < 4 and q0 != 0 and 0 <= q1 < 4 and q1 != 1
    post: _
    '''
    sub = k_permute(None, (0, q0), (1, q1))
    return len(sub) >= 0
"""
    conds.append(chrun.Condition("permute_tw__reach", chrun.twin(tw, "permute_tw"),
                                 timeout=60, expect="refuted"))

    npool = 8
    nmax = 17       # beyond two pool extensions for every space (7 / 8 base letters)
    for nused in range(0, (2 if quick else 3) + 1):
        for space in (["occ"] if quick else ["occ", "virt", "general"]):
            args = ", ".join(["n: int"] + [f"u{q}: int" for q in range(nused)])
            pre = " and ".join([f"0 <= n <= {nmax}"] + [f"0 <= u{q} < {npool}" for q in range(nused)])
            used = ", ".join(f"_POOLN[u{q}]" for q in range(nused))
            letter = {"occ": "i", "virt": "a", "general": "p"}[space]
            h3 = f"""
from adcgen.indices import get_lowest_avail_indices
_BASE = {{"occ": "ijklmno", "virt": "abcdefgh", "general": "pqrstuvw"}}
_L = "{letter}"
_B = _BASE["{space}"]
_POOLN = [_L, _B[1], _B[2], _L + "1", _B[-1], _B[1] + "1", _L + "2", _B[3]]

def h_lowest_{space}_{nused}({args}) -> bool:
    '''
    pre: {pre}
    post: _
    '''
    used = [{used}]
    res = get_lowest_avail_indices(n, list(used), "{space}")
    pool = []
    for suffix in range(0, 5):
        for ch in _B:
            pool.append(ch if suffix == 0 else ch + str(suffix))
    expect = [x for x in pool if x not in used][:n]
    return res == expect
"""
            add(f"lowest_{space}_{nused}", h3, reach=(nused == 1))

    L = 4 if quick else 5
    h4 = f"""
from adcgen.indices import split_idx_string

def h_split(s: str) -> bool:
    '''
    pre: 1 <= len(s) <= {L}
    pre: all(c in "ia12" for c in s)
    pre: not s[0].isdigit()
    post: _
    '''
    parts = split_idx_string(s)
    if "".join(parts) != s:
        return False
    for p in parts:
        if len(p) == 0 or p[0].isdigit():
            return False
        if not all(c.isdigit() for c in p[1:]):
            return False
    return True
"""
    add("split", h4)
    return conds
