"""CrossHair harness sources for C16 (integer indices, symbolic layouts)."""
from itertools import product

from . import chrun


def _rgs(n, kmax):
    """restricted growth strings of length n with values < kmax (index patterns up to renaming)"""
    out = []

    def rec(cur, mx):
        if len(cur) == n:
            out.append(tuple(cur))
            return
        for v in range(min(mx + 1, kmax - 1) + 1):
            rec(cur + [v], max(mx, v))
    rec([], -1)
    return out


def ch_conditions(tier):
    quick = tier == "quick"
    tmo = 200 if quick else 1800
    nid = 3 if quick else 4
    conds = []
    pats = _rgs(4, nid)
    # --- _split_contracted_and_target -------------------------------------------------
    body = """
from adcgen.generate_code.contraction import Contraction
"""
    nf = 0
    for (a0, a1, b0, b1) in pats:
        tag = f"{a0}{a1}{b0}{b1}"
        body += f"""

def h_split_{tag}(c0: int, t0: int, t1: int) -> bool:
    '''
    pre: 0 <= c0 < {nid + 1} and 0 <= t0 < {nid + 1} and 0 <= t1 < {nid + 1}
    post: _
    '''
    indices = (({a0}, {a1}), ({b0}, {b1}), (c0,))
    target_in = (t0, t1)
    contracted, target = Contraction._split_contracted_and_target(indices, target_in)
    flat = [{a0}, {a1}, {b0}, {b1}, c0]
    ok = True
    for x in set(flat):
        n = flat.count(x)
        want_target = (n == 1) or (x in target_in)
        if want_target != (x in target) or want_target == (x in contracted):
            ok = False
    if len(set(contracted)) != len(contracted) or len(set(target)) != len(target):
        ok = False
    if set(contracted) | set(target) != set(flat):
        ok = False
    return ok
"""
        nf += 1
    conds.append(chrun.Condition("split", body, timeout=tmo, n_funcs=nf))
    tw = """
from adcgen.generate_code.contraction import Contraction

def h_split_tw(c0: int, t0: int) -> bool:
    '''
    pre: 0 <= c0 < 3 and 0 <= t0 < 3
    post: _
    '''
    contracted, target = Contraction._split_contracted_and_target(((0, 1), (1, c0)), (t0,))
    ok = len(contracted) + len(target) > 0
    return ok
"""
    conds.append(chrun.Condition("split_tw__reach", chrun.twin(tw, "split_tw"), timeout=90,
                                 expect="refuted"))
    # --- _group_objects -----------------------------------------------------------------
    for lim in (2, 3):
        body = """
from adcgen.generate_code.contraction import Contraction
from adcgen.generate_code.optimize_contractions import _group_objects


def _check(objs, target, lim):
    res = _group_objects(objs, target, lim)
    occ = {}
    for pos, tup in enumerate(objs):
        for x in tup:
            occ.setdefault(x, set()).add(pos)
    seen = set()
    for g in res:
        if tuple(sorted(set(g))) != tuple(g) or len(g) < 1 or len(g) > lim:
            return False
        if any(p < 0 or p > 2 for p in g):
            return False
        if g in seen:
            return False
        seen.add(g)
    # a pair without a common contracted index is offered as outer product; a pair with
    # one is covered by a group holding every object that carries such an index, unless
    # that needs more objects than the limit allows
    for p in range(3):
        for q in range(p + 1, 3):
            contracted, _ = Contraction._split_contracted_and_target((objs[p], objs[q]), target)
            if not contracted:
                if (p, q) not in res:
                    return False
            else:
                need = set()
                for x in contracted:
                    need |= occ[x]
                if len(need) <= lim and not any(set(g) >= need for g in res):
                    return False
    return True
"""
        header = body
        chunks = [pats[k::4] for k in range(4)]
        for ck, chunk in enumerate(chunks):
          body = header
          nf = 0
          for (a0, a1, b0, b1) in chunk:
            tag = f"{a0}{a1}{b0}{b1}"
            body += f"""

def h_group{lim}_{tag}(c0: int, c1: int, t: int) -> bool:
    '''
    pre: 0 <= c0 < {nid} and 0 <= c1 < {nid} and -1 <= t < {nid}
    post: _
    '''
    objs = (({a0}, {a1}), ({b0}, {b1}), (c0, c1))
    target = () if t < 0 else (t,)
    ok = _check(objs, target, {lim})
    return ok
"""
            nf += 1
          conds.append(chrun.Condition(f"group_{lim}_{ck}", body, timeout=tmo, n_funcs=nf))
    tw2 = """
from adcgen.generate_code.optimize_contractions import _group_objects

def h_group_tw(c0: int, c1: int) -> bool:
    '''
    pre: 0 <= c0 < 3 and 0 <= c1 < 3
    post: _
    '''
    res = _group_objects(((0, 1), (1, 2), (c0, c1)), (), 3)
    ok = len(res) >= 0
    return ok
"""
    conds.append(chrun.Condition("group_tw__reach", chrun.twin(tw2, "group_tw"), timeout=90,
                                 expect="refuted"))
    return conds
