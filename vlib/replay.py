"""
Concrete replay of a solver model: a second evaluator that walks the *sympy*
tree of the real input/output (not the IR), uses plain nested loops over every
non-target index (no pruning, no planning) and exact arithmetic
(sympy Rational / sqrt).  A solver `sat` is only reported as a violation if the
two sides differ here.
"""
from fractions import Fraction
from itertools import product

from sympy import Add, Mul, Pow, Symbol, Rational, S, sqrt, nsimplify
from sympy.physics.secondquant import F, Fd, NO

from adcgen.indices import Index
from adcgen.sympy_objects import (
    AntiSymmetricTensor, SymmetricTensor, Amplitude, NonSymmetricTensor,
    KroneckerDelta
)

from .ir import idx_ir
from .poly import Vars


class NumericValues:
    """Numeric reading of the Vars registry under a solver model."""

    def __init__(self, vars_: Vars, vals: dict):
        self.vars, self.vals = vars_, dict(vals)

    def var(self, v):
        k = self.vars.keys[v]
        if k[0] == "R":
            return sqrt(k[1])
        if k[0] == "I":
            den = S.Zero
            for m, c in k[1]:
                t = Rational(c)
                for x in m:
                    t *= self.var(x)
                den += t
            if den == 0:
                raise ZeroDivisionError("pole")
            return 1 / den
        x = self.vals.get(v)
        if x is None:
            # variable absent from the query: any value will do, keep orbital
            # energies distinct so that no artificial pole appears
            if k[0] == "N" and len(k[2]) == 1:
                x = Fraction(7 * k[2][0] + 3, 2)
            else:
                x = Fraction(0)
            self.vals[v] = x
        return Rational(x.numerator, x.denominator)

    def ml(self, ml):
        tot = S.Zero
        for c, m in ml:
            t = Rational(c.numerator, c.denominator)
            for v in m:
                t *= self.var(v)
            tot += t
        return tot


def _cls(t):
    if isinstance(t, Amplitude):
        return "M"
    if isinstance(t, SymmetricTensor):
        return "S"
    return "A"


def eval_sympy(expr, model, valuation, numeric: NumericValues, target_asg: dict):
    """
    expr        plain sympy object (Add / Mul / ...)
    target_asg  {Index object: orbital}; every other index of a term is summed
    """
    if hasattr(expr, "sympy") and not isinstance(expr, (Add, Mul, Pow)):
        try:
            expr = expr.sympy
        except Exception:
            pass
    terms = expr.args if isinstance(expr, Add) else (expr,)
    total = S.Zero
    for term in terms:
        free = sorted((s for s in term.atoms(Index) if s not in target_asg),
                      key=lambda s: (s.name, s.dummy_index))
        ranges = [model.idx_range(idx_ir(s)) for s in free]
        for combo in product(*ranges):
            asg = dict(target_asg)
            asg.update(zip(free, combo))
            total += _eval_obj(term, model, valuation, numeric, asg)
    return nsimplify(total)


def _eval_obj(o, model, valuation, numeric, asg):
    if o.is_number:
        return o
    if isinstance(o, Mul):
        r = S.One
        # numerators first: a structurally vanishing numerator (e.g. an antisymmetric
        # tensor with two equal indices) makes the term zero whatever its denominator
        args = sorted(o.args, key=lambda a: isinstance(a, Pow) and a.args[1].is_negative)
        for a in args:
            r *= _eval_obj(a, model, valuation, numeric, asg)
            if r == 0:
                return S.Zero
        return r
    if isinstance(o, Add):
        return sum((_eval_obj(a, model, valuation, numeric, asg) for a in o.args), S.Zero)
    if isinstance(o, Pow):
        b = _eval_obj(o.args[0], model, valuation, numeric, asg)
        e = o.args[1]
        if e.is_negative and b == 0:
            raise ZeroDivisionError("pole")
        return b ** e
    if isinstance(o, AntiSymmetricTensor):
        U = tuple(asg[s] for s in o.upper)
        L = tuple(asg[s] for s in o.lower)
        return numeric.ml(valuation.tensor(o.name, _cls(o), U, L, int(o.bra_ket_sym)))
    if isinstance(o, NonSymmetricTensor):
        return numeric.ml(valuation.nonsym(o.name, tuple(asg[s] for s in o.indices)))
    if isinstance(o, KroneckerDelta):
        i, j = o.args
        return S.One if asg[i] == asg[j] else S.Zero
    if isinstance(o, Symbol) and not isinstance(o, Index):
        return numeric.ml(valuation.symbol(o.name))
    raise TypeError(f"replay: unsupported object {o!r}")
