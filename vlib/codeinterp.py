"""
Independent interpreter for the contraction code emitted by
adcgen.generate_code (einsum and libtensor back ends).

Grammar (as documented by the emitted text itself)
  program   := block ("\\n\\n" block)*
  block     := comment-line "Apply" perm "to:" line+
  perm      := "1" | "(" "1" (("+"|"-") P_xy P_zw ...)* ")"
  line      := ("+"|"-") product [comment]
  product   := factor (("*"|"/") factor)*
  factor    := number | "sqrt(" int ")" | "constants::sq" int | name
             | "einsum(" string "," product ("," product)* ")"
             | name "(" label ("|" label)* ")"                       (libtensor tensor)
             | "contract(" label ("|" label)* "," product ("," product)* ")"
             | "dot_product(" product ("," product)* ")"
Index strings are tokenised by the documented convention letter + digits; the
space of an index is given by its letter.  Tensor names are resolved through an
inventory {printed name: tensor description} built by the caller from the
*input* expression with the naming conventions re-typed in this module
(`printed_names`), and the letters of the index string are checked against the
resolved block.
"""
import re
from fractions import Fraction

from .poly import ml_mul, ONE

OCC, VIRT, GEN = "ijklmno", "abcdefgh", "pqrstuvw"


class CodeError(Exception):
    """The emitted text is not a well-formed program for this grammar / inventory."""


def split_labels(s):
    out = re.findall(r"[A-Za-z]\d*", s)
    if "".join(out) != s:
        raise CodeError(f"cannot tokenise index string {s!r}")
    return out


def space_of(label):
    c = label[0]
    if c in OCC:
        return "o"
    if c in VIRT:
        return "v"
    if c in GEN:
        return "g"
    raise CodeError(f"index {label!r} belongs to no space")


# ---------------------------------------------------------------------------------
# tokenizer / parser
# ---------------------------------------------------------------------------------
TOKEN = re.compile(r'\s*(?:(\d+\.\d+|\d+)|("[^"]*")|([A-Za-z_][\w\.:]*)|(.))')


def tokenize(text):
    toks = []
    pos = 0
    text = text.strip()
    while pos < len(text):
        m = TOKEN.match(text, pos)
        if not m:
            raise CodeError(f"cannot tokenise {text[pos:pos + 20]!r}")
        pos = m.end()
        if m.group(1) is not None:
            toks.append(("num", m.group(1)))
        elif m.group(2) is not None:
            toks.append(("str", m.group(2)[1:-1]))
        elif m.group(3) is not None:
            toks.append(("id", m.group(3)))
        elif m.group(4).strip():
            toks.append(("op", m.group(4)))
    return toks


class Parser:
    def __init__(self, toks):
        self.t, self.p = toks, 0

    def peek(self):
        return self.t[self.p] if self.p < len(self.t) else (None, None)

    def next(self):
        tok = self.peek()
        self.p += 1
        return tok

    def expect(self, kind, val=None):
        k, v = self.next()
        if k != kind or (val is not None and v != val):
            raise CodeError(f"expected {val or kind}, got {v!r}")
        return v

    def product(self):
        node = self.factor()
        while self.peek() in (("op", "*"), ("op", "/")):
            op = self.next()[1]
            rhs = self.factor()
            node = ("mul" if op == "*" else "div", node, rhs)
        return node

    def labels(self):
        out = [self.expect("id")]
        while self.peek() == ("op", "|"):
            self.next()
            out.append(self.expect("id"))
        return out

    def factor(self):
        k, v = self.next()
        if k == "num":
            return ("num", Fraction(v), "." not in v)      # third entry: integer literal
        if k != "id":
            raise CodeError(f"unexpected token {v!r}")
        if v == "sqrt":
            self.expect("op", "(")
            n = int(self.expect("num"))
            self.expect("op", ")")
            return ("sqrt", n)
        if v.startswith("constants::sq"):
            return ("sqrt", int(v[len("constants::sq"):]))
        if v == "einsum":
            self.expect("op", "(")
            spec = self.expect("str")
            ops = []
            while self.peek() == ("op", ","):
                self.next()
                ops.append(self.product())
            self.expect("op", ")")
            return ("einsum", spec, ops)
        if v == "contract":
            self.expect("op", "(")
            contracted = self.labels()
            ops = []
            while self.peek() == ("op", ","):
                self.next()
                ops.append(self.product())
            self.expect("op", ")")
            return ("contract", contracted, ops)
        if v == "dot_product":
            self.expect("op", "(")
            ops = [self.product()]
            while self.peek() == ("op", ","):
                self.next()
                ops.append(self.product())
            self.expect("op", ")")
            return ("dot", ops)
        if self.peek() == ("op", "("):        # libtensor tensor with labels
            self.next()
            lab = self.labels()
            self.expect("op", ")")
            return ("ltensor", v, lab)
        return ("name", v)


def parse_line(line):
    line = line.strip()
    for tok in ("#", "//"):
        if tok in line:
            line = line[:line.index(tok)]
    line = line.strip()
    if not line or line[0] not in "+-":
        raise CodeError(f"line does not start with a sign: {line!r}")
    sign = -1 if line[0] == "-" else 1
    p = Parser(tokenize(line[1:]))
    node = p.product()
    if p.p != len(p.t):
        raise CodeError(f"trailing tokens in {line!r}")
    return sign, node


def parse_perm(s):
    """'1' or '(1 + P_ij - P_abP_ij)' -> list of (sign, [(x, y), ...])"""
    s = s.strip()
    if s == "1":
        return []
    if not (s.startswith("(") and s.endswith(")")):
        raise CodeError(f"bad permutation operator {s!r}")
    parts = s[1:-1].split()
    if not parts or parts[0] != "1":
        raise CodeError(f"bad permutation operator {s!r}")
    out = []
    k = 1
    while k < len(parts):
        sg = parts[k]
        if sg not in "+-" or k + 1 >= len(parts):
            raise CodeError(f"bad permutation operator {s!r}")
        word = parts[k + 1]
        perms = []
        for chunk in word.split("P_"):
            if not chunk:
                continue
            lab = split_labels(chunk)
            if len(lab) != 2:
                raise CodeError(f"bad permutation {chunk!r}")
            perms.append(tuple(lab))
        out.append((1 if sg == "+" else -1, perms))
        k += 2
    return out


def cpp_scalars(node):
    """C++ arithmetic for the scalar literals of a libtensor line: an integer literal divided by
    (multiplied with) an integer literal is an integer (division truncates towards zero); as soon
    as one operand is a floating point literal (or anything else) the usual arithmetic applies."""
    k = node[0]
    if k in ("mul", "div"):
        a, b = cpp_scalars(node[1]), cpp_scalars(node[2])
        if a[0] == "num" and b[0] == "num" and len(a) > 2 and len(b) > 2 and a[2] and b[2]:
            if k == "mul":
                return ("num", a[1] * b[1], True)
            if b[1] == 0:
                raise CodeError("integer division by zero")
            q = abs(a[1]) // abs(b[1])
            return ("num", Fraction(q if (a[1] >= 0) == (b[1] >= 0) else -q), True)
        return (k, a, b)
    if k in ("contract", "einsum"):
        return (k, node[1], [cpp_scalars(x) for x in node[2]])
    if k == "dot":
        return (k, [cpp_scalars(x) for x in node[1]])
    return node


def parse_program(text, cpp=False):
    blocks = []
    for chunk in text.split("\n\n"):
        lines = [ln for ln in chunk.split("\n") if ln.strip()]
        if not lines:
            continue
        if not lines[0].startswith("The scaling comment"):
            raise CodeError(f"unexpected block header {lines[0]!r}")
        m = re.match(r"Apply (.*) to:$", lines[1].strip())
        if not m:
            raise CodeError(f"unexpected line {lines[1]!r}")
        perm = parse_perm(m.group(1))
        parsed = [parse_line(ln) for ln in lines[2:]]
        if cpp:
            parsed = [(sg, cpp_scalars(nd)) for sg, nd in parsed]
        blocks.append((perm, parsed))
    return blocks


# ---------------------------------------------------------------------------------
# naming conventions (re-typed from the documentation of Obj.longname / translate_*)
# ---------------------------------------------------------------------------------
def printed_names(ir_factor, backend, names):
    """
    names: dict with the configured tensor names (eri, fock, gs_amplitude, ...).
    Returns (printed name, description) for a tensor / delta IR factor, where
    description = (kind, tensor name, cls, n_upper, n_lower, bks, block string in
    printed index order).
    """
    k = ir_factor[0]
    if k == "d":
        idx = [ir_factor[1], ir_factor[2]]
        block = "".join(s[1] for s in idx)
        return f"d_{block}", ("delta", None, None, 1, 1, 0, block)
    if k == "n":
        name, idx = ir_factor[1], list(ir_factor[2])
        block = "".join(s[1] for s in idx)
        long = _longname(name, "N", len(idx), 0, block, names)
        return _translate(long, name, block, backend, names), \
            ("nonsym", name, "N", len(idx), 0, 0, block)
    if k == "t":
        name, cls, up, lo, bks = ir_factor[1], ir_factor[2], ir_factor[3], ir_factor[4], ir_factor[5]
        idx = list(lo + up) if cls == "M" else list(up + lo)
        block = "".join(s[1] for s in idx)
        long = _longname(name, cls, len(up), len(lo), block, names)
        return _translate(long, name, block, backend, names), \
            ("tensor", name, cls, len(up), len(lo), bks, block)
    raise CodeError(f"no printed name for factor {ir_factor[0]}")


def _longname(name, cls, nu, nl, block, names):
    t = names["gs_amplitude"]
    if name.startswith(t) and (name[len(t):].replace("c", "").isdigit() or name[len(t):] == ""
                               or name[len(t):].replace("c", "") == ""):
        ext = name[len(t):]
        return f"{t}{nu}_{ext}" if ext else f"{t}{nu}"
    if name in (names["left_adc_amplitude"], names["right_adc_amplitude"]):
        n_o, n_v = block.count("o"), block.count("v")
        n = n_o if n_o == n_v else min(n_o, n_v) + 1
        return f"u{'l' if name == names['left_adc_amplitude'] else 'r'}{n}"
    p = names["gs_density"]
    if name.startswith(p) and (name[len(p):].isdigit() or name[len(p):] == ""):
        ext = name[len(p):]
        return f"{p}0_{ext}_{block}" if ext else f"{p}0_{block}"
    if name.startswith("t2eri"):
        return f"t2eri_{name[5:]}"
    if name == "t2sq":
        return name
    return f"{name}_{block}"


def _translate(long, name, block, backend, names):
    if backend == "einsum":
        if long.startswith(names["eri"]):
            return f"hf.{block}"
        if long.startswith(names["fock"]):
            return f"hf.f{block}"
        return long
    if long.startswith(names["eri"]):
        return f"i_{block}"
    if long.startswith("t2eri"):
        return f"pi{long.split('_')[1]}"
    return long


# ---------------------------------------------------------------------------------
# evaluation
# ---------------------------------------------------------------------------------
class Interp:
    def __init__(self, program, inventory, symbols, target_labels, model, val):
        self.program, self.inv, self.symbols = program, inventory, set(symbols)
        self.target_labels, self.model, self.val = target_labels, model, val

    def rng(self, label):
        return self.model.range_of(space_of(label), "")

    def entry(self, name, labels, env):
        desc = self.inv.get(name)
        if desc is None:
            raise CodeError(f"unknown tensor name {name!r}")
        kind, tname, cls, nu, nl, bks, block = desc
        if len(labels) != len(block) or any(space_of(lab) != b for lab, b in zip(labels, block)):
            raise CodeError(f"index string {''.join(labels)} does not fit the block {block} of {name}")
        orbs = [env[lab] for lab in labels]
        if kind == "delta":
            return ONE if orbs[0] == orbs[1] else []
        if kind == "nonsym":
            return self.val.nonsym(tname, tuple(orbs))
        if cls == "M":      # printed order: lower, upper
            L, U = tuple(orbs[:nl]), tuple(orbs[nl:])
        else:
            U, L = tuple(orbs[:nu]), tuple(orbs[nu:])
        return self.val.tensor(tname, cls, U, L, bks)

    def labels_of(self, node):
        """free labels a node provides as a labelled (libtensor) object"""
        k = node[0]
        if k == "ltensor":
            return list(dict.fromkeys(node[2]))
        if k == "contract":
            out = []
            for op in node[2]:
                for x in self.labels_of(op):
                    if x not in node[1] and x not in out:
                        out.append(x)
            return out
        if k in ("mul", "div"):
            out = []
            for sub in node[1:]:
                for x in self.labels_of(sub):
                    if x not in out:
                        out.append(x)
            return out
        return []

    def ev(self, node, env, top_target=None):
        k = node[0]
        if k == "num":
            return [(node[1], ())]
        if k == "sqrt":
            from sympy import factorint
            from .ir import _norm_roots
            frac, roots = _norm_roots(Fraction(1), dict((p, e) for p, e in factorint(node[1]).items()))
            out = [(frac, ())]
            for p, _ in roots:
                out = ml_mul(out, self.val.root(p))
            return out
        if k == "mul":
            a = self.ev(node[1], env, top_target)
            if not a:
                return []
            b = self.ev(node[2], env, top_target)
            return ml_mul(a, b) if b else []
        if k == "div":
            b = node[2]
            if b[0] != "num":
                raise CodeError("division by a non-number")
            a = self.ev(node[1], env, top_target)
            return [(c / b[1], m) for c, m in a]
        if k == "name":
            if node[1] in self.symbols:
                return self.val.symbol(node[1])
            # a bare tensor: carries the target indices of the line in the requested order
            if top_target is None:
                raise CodeError(f"bare tensor {node[1]} inside a contraction")
            return self.entry(node[1], top_target, env)
        if k == "ltensor":
            return self.entry(node[1], node[2], env)
        if k == "einsum":
            spec, ops = node[1], node[2]
            if "->" not in spec:
                raise CodeError(f"bad einsum string {spec!r}")
            lhs, rhs = spec.split("->")
            op_labels = [split_labels(x) for x in lhs.split(",")] if lhs else []
            tgt = split_labels(rhs) if rhs else []
            if len(op_labels) != len(ops):
                raise CodeError(f"einsum {spec!r} with {len(ops)} operands")
            all_labels = []
            for ls in op_labels:
                for x in ls:
                    if x not in all_labels:
                        all_labels.append(x)
            if any(x not in all_labels for x in tgt):
                raise CodeError(f"einsum target {rhs} not among the operand indices")
            # the result is a tensor in the order `tgt`; the caller binds it positionally
            return ("tensor", tgt, op_labels, ops, [x for x in all_labels if x not in tgt])
        if k == "contract":
            contracted, ops = node[1], node[2]
            out = []

            def rec(d, e):
                if d == len(contracted):
                    acc = ONE
                    for op in ops:
                        v = self.ev(op, e)
                        if not v:
                            return
                        acc = ml_mul(acc, v)
                    out.extend(acc)
                    return
                for o in self.rng(contracted[d]):
                    e[contracted[d]] = o
                    rec(d + 1, e)
                del e[contracted[d]]
            for lab in contracted:
                if lab in env:
                    raise CodeError(f"contracted index {lab} is also a free index")
            rec(0, dict(env))
            return out
        if k == "dot":
            labs = []
            for op in node[1]:
                for x in self.labels_of(op):
                    if x not in labs:
                        labs.append(x)
            return self.ev(("contract", labs, node[1]), env)
        raise CodeError(f"cannot evaluate {k}")

    def einsum_value(self, t, env_positional):
        """value of an einsum result `t` at the orbitals given for its target labels"""
        _, tgt, op_labels, ops, summed = t
        base = dict(zip(tgt, env_positional))
        if len(set(tgt)) != len(tgt):
            raise CodeError("repeated index in an einsum result")
        out = []

        def operand(op, labels, e):
            v = self.ev_any(op, [e[x] for x in labels], labels, e)
            return v

        def rec(d, e):
            if d == len(summed):
                acc = ONE
                for op, labels in zip(ops, op_labels):
                    v = operand(op, labels, e)
                    if not v:
                        return
                    acc = ml_mul(acc, v)
                out.extend(acc)
                return
            for o in self.rng(summed[d]):
                e[summed[d]] = o
                rec(d + 1, e)
            del e[summed[d]]
        rec(0, base)
        return out

    def ev_any(self, node, orbs, labels, env):
        """einsum operand `node` evaluated with positional orbitals `orbs` (labels only
        used to type-check named tensors)"""
        k = node[0]
        if k == "name":
            if node[1] in self.symbols:
                return self.val.symbol(node[1])
            return self.entry(node[1], labels, dict(zip(labels, orbs)) if len(set(labels)) == len(labels)
                              else _env_rep(labels, orbs))
        if k == "einsum":
            t = self.ev(node, {})
            if len(t[1]) != len(orbs):
                raise CodeError("nested einsum result has another rank than its index string")
            return self.einsum_value(t, orbs)
        if k in ("mul", "div"):
            # scalar factors times one tensor-valued operand
            a_t = _is_tensor_valued(node[1])
            b_t = _is_tensor_valued(node[2])
            if k == "div":
                v = self.ev_any(node[1], orbs, labels, env)
                if node[2][0] != "num":
                    raise CodeError("division by a non-number")
                return [(c / node[2][1], m) for c, m in v]
            if a_t and b_t:
                raise CodeError("product of two tensor-valued operands inside an einsum operand")
            va = self.ev_any(node[1], orbs if a_t else [], labels if a_t else [], env)
            vb = self.ev_any(node[2], orbs if b_t else [], labels if b_t else [], env)
            if not va or not vb:
                return []
            return ml_mul(va, vb)
        if k in ("num", "sqrt"):
            return self.ev(node, env)
        raise CodeError(f"unexpected einsum operand {k}")

    # -- top level ------------------------------------------------------------------
    def line_value(self, sign, node, env):
        """value of a line with the target labels bound by env"""
        tgt = self.target_labels
        v = self._top(node, env, tgt)
        return [(c * sign, m) for c, m in v]

    def _top(self, node, env, tgt):
        k = node[0]
        if k in ("mul", "div"):
            if k == "div":
                if node[2][0] != "num":
                    raise CodeError("division by a non-number")
                return [(c / node[2][1], m) for c, m in self._top(node[1], env, tgt)]
            a = self._top(node[1], env, tgt)
            if not a:
                return []
            b = self._top(node[2], env, tgt)
            return ml_mul(a, b) if b else []
        if k == "einsum":
            t = self.ev(node, {})
            if t[1] != list(tgt) and len(t[1]) != 0:
                raise CodeError(f"top-level einsum returns {t[1]}, requested {list(tgt)}")
            return self.einsum_value(t, [env[x] for x in t[1]])
        return self.ev(node, env, top_target=list(tgt))

    def value(self, tau_by_label):
        out = []
        for perm, lines in self.program:
            variants = [(1, [])] + perm
            for sg, perms in variants:
                # P acts on the target assignment: evaluate the block with the labels renamed
                m = {x: x for x in self.target_labels}
                for x, y in perms:          # applied one after another
                    for key in m:
                        if m[key] == x:
                            m[key] = y
                        elif m[key] == y:
                            m[key] = x
                env = {lab: tau_by_label[m[lab]] for lab in self.target_labels}
                for sign, node in lines:
                    v = self.line_value(sign, node, dict(env))
                    out.extend((c * sg, mm) for c, mm in v)
        return out


def _is_tensor_valued(node):
    k = node[0]
    if k in ("num", "sqrt"):
        return False
    if k == "einsum":
        return "->" in node[1] and node[1].split("->")[1] != ""
    if k == "name":
        return True       # symbols are handled by the caller through ev_any
    if k in ("mul", "div"):
        return any(_is_tensor_valued(x) for x in node[1:])
    return True


def _env_rep(labels, orbs):
    """environment for a tensor whose index string repeats a label (trace inside einsum):
    the repeated label must carry the same orbital at both positions"""
    env = {}
    for lab, o in zip(labels, orbs):
        if lab in env and env[lab] != o:
            raise CodeError("inconsistent orbitals for a repeated label")
        env[lab] = o
    return env
