"""CrossHair harness sources for C06 (duck-typed indices, symbolic attributes)."""
from . import chrun, srcgen


def ch_conditions(tier):
    quick = tier == "quick"
    tmo = 200 if quick else 1800
    nbk = srcgen.regenerate("adcgen/sympy_objects.py", "AntiSymmetricTensor._need_bra_ket_swap",
                            new_name="k_need_swap")
    sic = srcgen.regenerate("adcgen/indices.py", "sort_idx_canonical", new_name="k_sort_key")
    pak = srcgen.regenerate("adcgen/sympy_objects.py", "KroneckerDelta.preferred_and_killable",
                            new_name="k_pref_kill")
    names = (["i", "j", "i1", "i2", "i10", "a", "a3", "p"] if not quick
             else ["i", "j", "i2", "i10", "a"])
    prelude_cls = f"""
NAMES = {names!r}

class Index:
    def __init__(self, sp, spin, nm):
        self.space = ["occ", "virt", "general"][sp]
        self.spin = ["", "a", "b"][spin]
        self.name = NAMES[nm]
        num = int(self.name[1:]) if self.name[1:] else 0
        self.key = (self.space[0], self.spin, num, self.name[0])
    def __hash__(self):
        return 0
    def __eq__(self, other):
        return isinstance(other, Index) and self.key == other.key

class _D:
    def __init__(self, i, j):
        self.args = (i, j)

def _want_swap(u, l):
    ku, kl = [x.key for x in u], [x.key for x in l]
    # documented order: space, then spin, then (number, letter); smaller one is upper
    kl3 = ([k[0] for k in kl], [k[1] for k in kl], [(k[2], k[3]) for k in kl])
    ku3 = ([k[0] for k in ku], [k[1] for k in ku], [(k[2], k[3]) for k in ku])
    return kl3 < ku3

def _check_swap(u, l):
    a, b = k_need_swap(None, u, l), k_need_swap(None, l, u)
    if a and b:
        return False
    if [x.key for x in u] == [x.key for x in l]:
        return not a and not b
    w = _want_swap(u, l)
    return a == w and b == (not w)
"""
    nn = len(names)
    conds = []

    def add(name, src, reach=False, timeout=tmo, n_funcs=1):
        conds.append(chrun.Condition(name, src, timeout=timeout, n_funcs=n_funcs))
        if reach:
            conds.append(chrun.Condition(name + "__reach", chrun.twin(src, name),
                                         timeout=90, expect="refuted"))

    # rank 1|1: one module per first space; spins and names symbolic
    for s1 in range(3):
        body = prelude_cls + nbk
        for s2 in range(3):
            body += f"""

def h_swap11_{s1}{s2}(p1: int, n1: int, p2: int, n2: int) -> bool:
    '''
    pre: 0 <= p1 < 3 and 0 <= p2 < 3 and 0 <= n1 < {nn} and 0 <= n2 < {nn}
    post: _
    '''
    return _check_swap([Index({s1}, p1, n1)], [Index({s2}, p2, n2)])
"""
        add(f"swap11_s{s1}", body, n_funcs=3)
    tw = prelude_cls + nbk + f"""

def h_swap11_tw(p1: int, n1: int, p2: int, n2: int) -> bool:
    '''
    pre: 0 <= p1 < 3 and 0 <= p2 < 3 and 0 <= n1 < {nn} and 0 <= n2 < {nn}
    post: _
    '''
    return _check_swap([Index(0, p1, n1)], [Index(0, p2, n2)])
"""
    conds.append(chrun.Condition("swap11_tw__reach", chrun.twin(tw, "swap11_tw"),
                                 timeout=90, expect="refuted"))

    # rank 2|2: spaces and spins symbolic, names fixed per condition
    pats = [(0, 1, 0, 1), (0, 1, 1, 0), (2, 3, 0, 2)] if not quick else [(0, 1, 0, 1), (2, 3, 0, 2)]
    if quick:
        # quick tier: spaces fixed per condition (diagonal blocks and one mixed block),
        # spins symbolic; the thorough tier has the spaces symbolic as well
        for k, (na, nb, nc, nd) in enumerate(pats):
            for tag, (a1, a2, a3, a4) in (("oooo", (0, 0, 0, 0)), ("ovov", (0, 1, 0, 1)),
                                          ("ggov", (2, 2, 0, 1))):
                body = prelude_cls + nbk + f"""

def h_swap22q_{k}_{tag}(p1: int, p2: int, p3: int, p4: int) -> bool:
    '''
    pre: 0 <= p1 < 3 and 0 <= p2 < 3 and 0 <= p3 < 3 and 0 <= p4 < 3
    post: _
    '''
    u = [Index({a1}, p1, {na}), Index({a2}, p2, {nb})]
    l = [Index({a3}, p3, {nc}), Index({a4}, p4, {nd})]
    return _check_swap(u, l)
"""
                add(f"swap22q_{k}_{tag}", body)
        pats = []
    for k, (na, nb, nc, nd) in enumerate(pats):
        for sA in range(3):
            body = prelude_cls + nbk + f"""

def h_swap22_{k}_{sA}(s2: int, s3: int, s4: int, p1: int, p2: int, p3: int, p4: int) -> bool:
    '''
    pre: 0 <= s2 < 3 and 0 <= s3 < 3 and 0 <= s4 < 3
    pre: 0 <= p1 < 3 and 0 <= p2 < 3 and 0 <= p3 < 3 and 0 <= p4 < 3
    post: _
    '''
    u = [Index({sA}, p1, {na}), Index(s2, p2, {nb})]
    l = [Index(s3, p3, {nc}), Index(s4, p4, {nd})]
    return _check_swap(u, l)
"""
            add(f"swap22_{k}_s{sA}", body)

    for s1 in range(3):
        body = prelude_cls + sic
        for s2 in range(3):
            body += f"""

def h_sortkey_{s1}{s2}(p1: int, n1: int, p2: int, n2: int) -> bool:
    '''
    pre: 0 <= p1 < 3 and 0 <= p2 < 3 and 0 <= n1 < {nn} and 0 <= n2 < {nn}
    post: _
    '''
    x, y = Index({s1}, p1, n1), Index({s2}, p2, n2)
    kx, ky = k_sort_key(x), k_sort_key(y)
    # injective on (space, spin, number, letter) and lexicographic in that order
    if (kx == ky) != (x.key == y.key):
        return False
    return (kx < ky) == (x.key < y.key)
"""
        add(f"sortkey_s{s1}", body, n_funcs=3)

    h4 = prelude_cls + pak + """

def h_prefkill(s1: int, p1: int, s2: int, p2: int) -> bool:
    '''
    pre: 0 <= s1 < 3 and 0 <= s2 < 3 and 0 <= p1 < 3 and 0 <= p2 < 3
    pre: s1 == s2 or s1 == 2 or s2 == 2
    pre: p1 == p2 or p1 == 0 or p2 == 0
    post: _
    '''
    # (a delta between different occ/virt spaces or between different spins is
    #  zero on construction and never reaches this code)
    i, j = Index(s1, p1, 0), Index(s2, p2, 1)
    r = k_pref_kill(_D(i, j))
    def info(x):
        return (0 if x.space == "general" else 1, 0 if x.spin == "" else 1)
    (a1, b1), (a2, b2) = info(i), info(j)
    i_dom = a1 >= a2 and b1 >= b2
    j_dom = a2 >= a1 and b2 >= b1
    if r is None:
        return not i_dom and not j_dom
    pref, kill = r
    if {id(pref), id(kill)} != {id(i), id(j)}:
        return False
    pa, pb = info(pref)
    ka, kb = info(kill)
    return pa >= ka and pb >= kb
"""
    add("prefkill", h4, reach=True)
    return conds
