"""
Solver back end: monomial lists -> SMT-LIB2 -> z3 verdicts, two-stage treatment
of denominators, model extraction, cvc5 cross check.

Stage 1  every inverse variable ('I', form) is an unconstrained real.  `unsat`
         of  OR_tau (A_tau != B_tau)  is sound (the true 1/form is one of the
         admissible values).
Stage 2  (only after a stage-1 `sat`)  A - B is split by its *outer* monomial
         (variables that are neither inverse variables nor variables occurring
         in an inverted form nor sqrt constants); the outer variables are
         algebraically independent of the inner ones, hence A == B for all
         values iff every coefficient - a rational function of the inner
         variables - vanishes identically.  Each coefficient is multiplied by the
         product of the forms it inverts (denominators cleared syntactically, the
         solver does the expansion) and  OR_m (cleared_m != 0)  is asked together
         with  form_k != 0  and the sqrt constraints.
"""
import os
import time
from fractions import Fraction

import z3

from .poly import Vars


def _num(c: Fraction) -> str:
    if c.denominator == 1:
        s = f"{abs(c.numerator)}.0"
    else:
        s = f"(/ {abs(c.numerator)}.0 {c.denominator}.0)"
    return f"(- {s})" if c < 0 else s


def ml_smt(ml, vars_: Vars) -> str:
    if not ml:
        return "0.0"
    parts = []
    for c, m in ml:
        if not m:
            parts.append(_num(c))
        else:
            parts.append("(* " + _num(c) + " " + " ".join(f"x{v}" for v in m) + ")")
    if len(parts) == 1:
        return parts[0]
    return "(+ " + " ".join(parts) + ")"


def _form_smt(form) -> str:
    parts = []
    for m, c in form:
        if m:
            parts.append(f"(* {_num(Fraction(c))} " + " ".join(f"x{v}" for v in m) + ")")
        else:
            parts.append(_num(Fraction(c)))
    return parts[0] if len(parts) == 1 else "(+ " + " ".join(parts) + ")"


def _form_vars(form):
    return {v for m, _ in form for v in m}


def _form_value(form, vals):
    tot = Fraction(0)
    for m, c in form:
        t = Fraction(c)
        for v in m:
            t *= vals.get(v, Fraction(0))
        tot += t
    return tot


def _decls(used, vars_: Vars):
    return "\n".join(f"(declare-const x{v} Real)" for v in sorted(used))


def _used_vars(mls):
    used = set()
    for ml in mls:
        for _, m in ml:
            used.update(m)
    return used


def _root_constraints(used, vars_: Vars):
    out = []
    for v in used:
        k = vars_.keys[v]
        if k[0] == "R":
            out.append(f"(assert (= (* x{v} x{v}) {k[1]}.0))")
            out.append(f"(assert (> x{v} 0.0))")
    return out


class Verdict:
    __slots__ = ("status", "model", "stage", "solver_s", "which", "n_disjuncts",
                 "text_bytes", "note")

    def __init__(self, status, model=None, stage=1, solver_s=0.0, which=None,
                 n_disjuncts=0, text_bytes=0, note=""):
        self.status, self.model, self.stage = status, model, stage
        self.solver_s, self.which = solver_s, which
        self.n_disjuncts, self.text_bytes, self.note = n_disjuncts, text_bytes, note

    def __repr__(self):
        return (f"Verdict({self.status}, stage={self.stage}, "
                f"{self.solver_s:.3f}s, disj={self.n_disjuncts})")


def run_z3(text: str, timeout_ms: int, seed: int = 0):
    s = z3.Solver()
    s.set("timeout", timeout_ms)
    s.set("random_seed", seed % (2 ** 31))
    t0 = time.time()
    s.from_string(text)
    r = s.check()
    dt = time.time() - t0
    _dump(text, str(r))
    return str(r), s, dt


def _dump(text, status):
    """VERIF_DUMP_SMT=<dir>: keep the text of every query (one file per process and query,
    first 40 per process) for tools/crosscheck.py, which re-decides them with other solvers."""
    d = os.environ.get("VERIF_DUMP_SMT")
    if not d:
        return
    _dump.n = getattr(_dump, "n", 0) + 1
    if _dump.n > 40:
        return
    try:
        os.makedirs(d, exist_ok=True)
        with open(os.path.join(d, f"q_{os.getpid()}_{_dump.n}.smt2"), "w") as fh:
            fh.write(f"; z3-wheel: {status}\n(set-logic QF_NRA)\n{text}\n(check-sat)\n")
    except OSError:
        pass


def _model_values(s, vars_: Vars, used):
    """{var id: Fraction} from a z3 model (algebraic values are approximated)."""
    m = s.model()
    vals = {}
    byname = {d.name(): d for d in m.decls()}
    for v in used:
        d = byname.get(f"x{v}")
        if d is None:
            vals[v] = Fraction(0)
            continue
        x = m[d]
        if z3.is_rational_value(x):
            vals[v] = Fraction(x.numerator_as_long(), x.denominator_as_long())
        elif z3.is_algebraic_value(x):
            a = x.approx(20)
            vals[v] = Fraction(a.numerator_as_long(), a.denominator_as_long())
        else:
            vals[v] = Fraction(0)
    return vals


def check_equal(pairs, vars_: Vars, timeout_ms=20000, seed=0, extra_asserts=(),
                allow_stage2=True):
    """
    pairs : list of (label, A_ml, B_ml).  Decides  OR_label (A != B).
    Returns a Verdict; status 'unsat' (= equal for all values), 'sat'
    (model + label of a differing pair), or 'unknown'.
    """
    used = _used_vars([p[1] for p in pairs] + [p[2] for p in pairs])
    has_inv = any(vars_.keys[v][0] == "I" for v in used)
    lines = [_decls(used, vars_)]
    lines += _root_constraints(used, vars_)
    lines += list(extra_asserts)
    flags = []
    for n, (label, a, b) in enumerate(pairs):
        lines.append(f"(declare-const q{n} Bool)")
        lines.append(f"(assert (= q{n} (not (= {ml_smt(a, vars_)} {ml_smt(b, vars_)}))))")
        flags.append(f"q{n}")
    if not flags:
        return Verdict("unsat", note="no pairs")
    lines.append("(assert (or " + " ".join(flags) + "))" if len(flags) > 1
                 else f"(assert {flags[0]})")
    text = "\n".join(lines)
    status, s, dt = run_z3(text, timeout_ms, seed)
    if status == "unsat":
        return Verdict("unsat", stage=1, solver_s=dt, n_disjuncts=len(pairs),
                       text_bytes=len(text))
    if status == "sat" and not has_inv:
        vals = _model_values(s, vars_, used)
        which = _which_true(s, len(pairs))
        return Verdict("sat", model=vals, stage=1, solver_s=dt,
                       which=pairs[which][0] if which is not None else None,
                       n_disjuncts=len(pairs), text_bytes=len(text))
    if not has_inv or not allow_stage2:
        return Verdict(status if status != "sat" else "unknown", stage=1, solver_s=dt,
                       n_disjuncts=len(pairs), text_bytes=len(text),
                       note="stage 1 inconclusive")
    v2 = _stage2(pairs, vars_, timeout_ms, seed)
    v2.solver_s += dt
    return v2


def _which_true(s, n):
    m = s.model()
    for d in m.decls():
        if d.name().startswith("q") and z3.is_true(m[d]):
            try:
                return int(d.name()[1:])
            except ValueError:
                pass
    return None


def inner_vars(vars_: Vars, used):
    """Inverse variables, every variable occurring in an inverted form, and the
    sqrt constants."""
    inner = set()
    for v in used:
        k = vars_.keys[v]
        if k[0] == "I":
            inner.add(v)
            inner.update(_form_vars(k[1]))
        elif k[0] == "R":
            inner.add(v)
    return inner


def _stage2(pairs, vars_: Vars, timeout_ms, seed):
    used = _used_vars([p[1] for p in pairs] + [p[2] for p in pairs])
    inner = inner_vars(vars_, used)
    groups = []      # (label, outer monomial, [(coef, inner monomial)])
    for label, a, b in pairs:
        g = {}
        for sign, ml in ((1, a), (-1, b)):
            for c, m in ml:
                outer = tuple(sorted(v for v in m if v not in inner))
                inn = tuple(v for v in m if v in inner)
                g.setdefault(outer, []).append((sign * c, inn))
        for outer, lst in g.items():
            groups.append((label, outer, lst))
    inv_forms = {v: vars_.keys[v][1] for v in inner if vars_.keys[v][0] == "I"}
    used_inner = set()
    lines = []
    flags = []
    for n, (label, outer, lst) in enumerate(groups):
        # maximal degree of every inverse variable in this group
        deg = {}
        for _, inn in lst:
            cnt = {}
            for v in inn:
                if v in inv_forms:
                    cnt[v] = cnt.get(v, 0) + 1
            for v, d in cnt.items():
                if d > deg.get(v, 0):
                    deg[v] = d
        parts = []
        for c, inn in lst:
            cnt = {}
            rest = []
            for v in inn:
                if v in inv_forms:
                    cnt[v] = cnt.get(v, 0) + 1
                else:
                    rest.append(v)
                    used_inner.add(v)
            fac = [_num(c)] + [f"x{v}" for v in rest]
            for v, d in deg.items():
                for _ in range(d - cnt.get(v, 0)):
                    fac.append(_form_smt(inv_forms[v]))
            parts.append("(* " + " ".join(fac) + ")" if len(fac) > 1 else fac[0])
        for v in deg:
            used_inner.update(_form_vars(inv_forms[v]))
        poly = parts[0] if len(parts) == 1 else "(+ " + " ".join(parts) + ")"
        lines.append(f"(declare-const g{n} Bool)")
        lines.append(f"(assert (= g{n} (not (= {poly} 0.0))))")
        flags.append(f"g{n}")
    head = [_decls(used_inner, vars_)]
    head += _root_constraints(used_inner, vars_)
    for v, form in inv_forms.items():
        head.append(f"(assert (not (= {_form_smt(form)} 0.0)))")
    text = "\n".join(head + lines + [
        "(assert (or " + " ".join(flags) + "))" if len(flags) > 1 else f"(assert {flags[0]})"])
    status, s, dt = run_z3(text, timeout_ms, seed)
    if status == "unsat":
        return Verdict("unsat", stage=2, solver_s=dt, n_disjuncts=len(groups),
                       text_bytes=len(text))
    if status != "sat":
        return Verdict("unknown", stage=2, solver_s=dt, n_disjuncts=len(groups),
                       text_bytes=len(text))
    # inner values fixed by the model; inverse variables follow; then find outer
    # values for the violated group with a second, now purely polynomial, query
    vals = _model_values(s, vars_, used_inner)
    which = None
    m = s.model()
    for d in m.decls():
        if d.name().startswith("g") and z3.is_true(m[d]):
            which = int(d.name()[1:])
            break
    for v, form in inv_forms.items():
        den = _form_value(form, vals)
        if den == 0:
            return Verdict("unknown", stage=2, solver_s=dt, note="model hits a pole")
        vals[v] = 1 / den
    label = groups[which][0] if which is not None else pairs[0][0]
    # second query: outer variables
    pair = next(p for p in pairs if p[0] == label)
    num = []
    for sign, ml in ((1, pair[1]), (-1, pair[2])):
        for c, mm in ml:
            cc = sign * c
            rest = []
            for v in mm:
                if v in inner:
                    cc *= vals.get(v, Fraction(0))
                else:
                    rest.append(v)
            num.append((cc, tuple(rest)))
    outer_used = _used_vars([num])
    text2 = "\n".join([_decls(outer_used, vars_),
                       f"(assert (not (= {ml_smt(num, vars_)} 0.0)))"])
    st2, s2, dt2 = run_z3(text2, timeout_ms, seed)
    if st2 != "sat":
        return Verdict("unknown", stage=2, solver_s=dt + dt2,
                       note=f"outer query {st2}")
    vals.update(_model_values(s2, vars_, outer_used))
    return Verdict("sat", model=vals, stage=2, solver_s=dt + dt2, which=label,
                   n_disjuncts=len(groups), text_bytes=len(text))


def check_nonzero_somewhere(ml, vars_: Vars, timeout_ms=20000, seed=0):
    """sat iff the polynomial is not identically zero (used for vacuity
    guards: a perturbed output must be distinguishable)."""
    return check_equal([("x", ml, [])], vars_, timeout_ms, seed)


def run_cvc5(text: str, timeout_ms: int):
    """Cross-check of a stage-1 query text with the cvc5 python wheel."""
    import cvc5
    tm = cvc5.TermManager() if hasattr(cvc5, "TermManager") else None
    slv = cvc5.Solver(tm) if tm is not None else cvc5.Solver()
    slv.setOption("tlimit-per", str(timeout_ms))
    slv.setLogic("QF_NRA")
    parser = cvc5.InputParser(slv)
    parser.setStringInput(cvc5.InputLanguage.SMT_LIB_2_6, text + "\n(check-sat)\n", "q")
    sm = parser.getSymbolManager()
    res = None
    t0 = time.time()
    while True:
        cmd = parser.nextCommand()
        if cmd.isNull():
            break
        out = cmd.invoke(slv, sm)
        if "sat" in str(out):
            res = str(out).strip()
    return res, time.time() - t0


def query_text(pairs, vars_: Vars, extra_asserts=()):
    used = _used_vars([p[1] for p in pairs] + [p[2] for p in pairs])
    lines = [_decls(used, vars_)] + _root_constraints(used, vars_) + list(extra_asserts)
    dis = [f"(not (= {ml_smt(a, vars_)} {ml_smt(b, vars_)}))" for _, a, b in pairs]
    lines.append("(assert (or " + " ".join(dis) + "))" if len(dis) > 1
                 else f"(assert {dis[0]})")
    return "\n".join(lines)
