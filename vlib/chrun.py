"""
E3: CrossHair on adcgen's pure-Python kernels.

A *harness module* is generated at run time (from /repo's current source where a
kernel has to be re-bound, see srcgen.py), written to a scratch directory that
is removed afterwards, and contains functions of the form

    def h_<name>(args...) -> bool:
        '''
        pre: <bounds on the symbolic inputs>
        post: _
        '''
        ... run the real kernel, return whether the property holds ...

CrossHair (symbolic execution on z3) is asked for an input with `post` false.
Verdicts:
  'confirmed'     "Confirmed over all paths"  (within the pre-condition bounds)
  'refuted'       a counterexample; it is re-executed concretely in a plain
                  interpreter and only counts if the harness returns False there
  'inconclusive'  anything else (not confirmed / unable to meet precondition / timeout)
Every harness has a reachability twin (`reach=True`): same pre-condition, the
body returns False once the kernel has been run; it must be *refuted*, otherwise
the harness is vacuous.
"""
import os
import re
import shutil
import subprocess
import sys
import tempfile
import time
from concurrent.futures import ThreadPoolExecutor

VENV_PY = "/verif/.venv/bin/python"


class Condition:
    def __init__(self, name, src, timeout=60, expect="confirmed", per_path=None,
                 n_funcs=1):
        self.name, self.src, self.timeout, self.expect = name, src, timeout, expect
        self.n_funcs = n_funcs
        self.per_path = per_path
        self.verdict = None
        self.message = ""
        self.wall = 0.0
        self.replayed = None


def _run_one(cond: Condition, workdir: str, prelude: str):
    path = os.path.join(workdir, f"h_{cond.name}.py")
    with open(path, "w") as fh:
        fh.write(prelude + "\n\n" + cond.src + "\n")
    cmd = [VENV_PY, "-m", "crosshair", "check", "--report_all",
           "--per_condition_timeout", str(cond.timeout)]
    if cond.per_path:
        cmd += ["--per_path_timeout", str(cond.per_path)]
    cmd.append(path)
    env = dict(os.environ)
    env["PYTHONPATH"] = os.path.dirname(os.path.dirname(os.path.abspath(__file__))) + ":" + workdir + (":" + env["PYTHONPATH"] if env.get("PYTHONPATH") else "")
    env["ADCGEN_LOG_LEVEL"] = "ERROR"
    t0 = time.time()
    try:
        p = subprocess.run(cmd, capture_output=True, text=True, env=env,
                           timeout=cond.timeout * (2 + cond.n_funcs) + 120)
        out = p.stdout + p.stderr
    except subprocess.TimeoutExpired:
        out = "TIMEOUT (hard)"
    cond.wall = time.time() - t0
    cond.message = out.strip()[-1200:]
    if out.count("Confirmed over all paths") >= cond.n_funcs and "error:" not in out:
        cond.verdict = "confirmed"
    elif "error:" in out and "when calling" in out:
        cond.verdict = "refuted"
        m = re.search(r"when calling (.*?)(?: \(which |\s*$)", out, re.S | re.M)
        cond.call = m.group(1).strip() if m else None
        cond.replayed = _replay(path, cond, workdir, env)
    else:
        cond.verdict = "inconclusive"
    return cond


def _replay(path, cond, workdir, env):
    """Re-executes CrossHair's counterexample in a plain interpreter."""
    call = getattr(cond, "call", None)
    if not call:
        return None
    code = (
        "import sys, importlib.util\n"
        f"spec = importlib.util.spec_from_file_location('hmod', {path!r})\n"
        "m = importlib.util.module_from_spec(spec); spec.loader.exec_module(m)\n"
        "ns = dict(vars(m))\n"
        f"r = eval({call!r}, ns)\n"
        "print('REPLAY', r)\n"
    )
    try:
        p = subprocess.run([VENV_PY, "-c", code], capture_output=True, text=True,
                           env=env, timeout=120)
    except subprocess.TimeoutExpired:
        return None
    if "REPLAY False" in p.stdout:
        return "reproduced"
    if "REPLAY True" in p.stdout:
        return "not-reproduced"
    if p.returncode != 0:
        return "raised: " + p.stderr.strip().splitlines()[-1][:200] if p.stderr.strip() else "raised"
    return None


def run_conditions(conds, prelude="", workers=16):
    workdir = tempfile.mkdtemp(prefix="verif-ch-")
    try:
        with ThreadPoolExecutor(max_workers=workers) as ex:
            list(ex.map(lambda c: _run_one(c, workdir, prelude), conds))
    finally:
        shutil.rmtree(workdir, ignore_errors=True)
    return conds


def twin(cond_src: str, name: str) -> str:
    """Reachability twin: identical harness whose result is negated to False."""
    src = cond_src.replace(f"def h_{name}(", f"def h_{name}__reach(")
    # the harness body must end in `return <expr>`; the twin returns False instead
    lines = src.rstrip().splitlines()
    for i in range(len(lines) - 1, -1, -1):
        if lines[i].lstrip().startswith("return "):
            ind = lines[i][:len(lines[i]) - len(lines[i].lstrip())]
            lines[i] = ind + "return False"
            break
    return "\n".join(lines)


def record(run, part, conds):
    """Books CrossHair verdicts into a driver.Run.  Returns list of genuine
    refutations (reproduced concretely) that are not expected."""
    genuine = []
    ob = run.cov.setdefault("crosshair", {"obligations": 0, "discharged": 0,
                                          "refuted": 0, "inconclusive": 0,
                                          "reach_twins_ok": 0, "seconds": 0.0,
                                          "conditions": []})
    for c in conds:
        ob["seconds"] = round(ob["seconds"] + c.wall, 1)
        entry = {"name": c.name, "verdict": c.verdict, "expect": c.expect,
                 "wall_s": round(c.wall, 1)}
        if c.expect == "refuted":        # reachability twin
            if c.verdict == "refuted":
                ob["reach_twins_ok"] += 1
            else:
                entry["note"] = "reachability twin not refuted -> harness possibly vacuous"
                run.cov["inconclusive"].append({"part": part, "case": c.name,
                                                "note": entry["note"]})
            ob["conditions"].append(entry)
            continue
        ob["obligations"] += 1
        run.cov["evaluations"] += 1
        p = run.part(part)
        p["cases"] += 1
        if c.verdict == "confirmed":
            ob["discharged"] += 1
            p["equal"] += 1
            run._distinct.add(("ch", c.name))
        elif c.verdict == "refuted":
            entry["call"] = getattr(c, "call", None)
            entry["replay"] = c.replayed
            if c.replayed == "reproduced" or (c.replayed or "").startswith("raised"):
                ob["refuted"] += 1
                p["differ"] += 1
                genuine.append(c)
            else:
                ob["inconclusive"] += 1
                p["unknown"] += 1
                run.cov["inconclusive"].append(
                    {"part": part, "case": c.name,
                     "note": f"CrossHair counterexample did not reproduce concretely: {entry['call']}"})
        else:
            ob["inconclusive"] += 1
            p["unknown"] += 1
            run.cov["inconclusive"].append({"part": part, "case": c.name,
                                            "note": c.message[-200:]})
        ob["conditions"].append(entry)
    return genuine
