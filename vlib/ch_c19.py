"""CrossHair harness for the index registry: one inductive step of
Indices.get_generic_indices / get_indices / _gen_generic_idx from an arbitrary
pre-state of one (space, spin) cell that satisfies the invariant."""
from . import chrun


def _head(counter):
    return f"""
from adcgen.indices import Indices

NAMES = ["i3", "j3", "i4", "j4", "i5", "j5", "i6", "j6", "i7", "j7"]


class _Sym:
    def __init__(self, name):
        self.name = name


def _state(status):
    reg = object.__new__(Indices)
    reg.base = {{"occ": "ij", "virt": "ab", "general": "pq"}}
    reg._symbols = {{"occ": {{"": {{}}}}}}
    reg._generic_indices = {{"occ": {{"": []}}}}
    reg._counter = {{"occ": {{"": {counter}}}}}
    reg._new_symbol = lambda name, space, spin: _Sym(name)
    for nm, st in zip(NAMES, status):
        if st == 2:
            reg._symbols["occ"][""][nm] = _Sym(nm)
        elif st == 1:
            reg._generic_indices["occ"][""].append(nm)
    return reg


"""


def ch_conditions(tier):
    quick = tier == "quick"
    tmo = 240 if quick else 2400
    conds = []
    # alphabet of the cell reduced to two letters (bound); candidate generic names
    # i3 j3 i4 j4 i5 j5 i6 j6; the counter is concrete per condition
    for counter in (3, 4, 5):
        for n in ((1, 2) if quick else (1, 2, 3)):
            src = _head(counter) + f"""
def h_registry_{counter}_{n}(s0: int, s1: int, s2: int, s3: int, s4: int, s5: int) -> bool:
    '''
    pre: all(0 <= s <= 2 for s in (s0, s1, s2, s3, s4, s5))
    pre: all((int(NAMES[k][1:]) < {counter}) == (s != 0) or s == 2 for k, s in enumerate((s0, s1, s2, s3, s4, s5)))
    pre: all(s != 1 or int(NAMES[k][1:]) < {counter} for k, s in enumerate((s0, s1, s2, s3, s4, s5)))
    post: _
    '''
    status = [s0, s1, s2, s3, s4, s5, 0, 0, 0, 0]
    reg = _state(status)
    handed_out_before = set(nm for nm, st in zip(NAMES, status) if st == 2)
    res = reg.get_generic_indices(occ={n})
    got = res[("occ", "")]
    names = [s.name for s in got]
    ok = True
    if len(names) != {n} or len(set(names)) != {n}:
        ok = False
    # never handed out before
    if any(nm in handed_out_before for nm in names):
        ok = False
    # now registered, and a repeated request returns the identical object
    for s in got:
        if reg._symbols["occ"][""].get(s.name) is not s:
            ok = False
        again = reg.get_indices([s.name])[("occ", "")][0]
        if again is not s:
            ok = False
    # invariant re-established
    pend = reg._generic_indices["occ"][""]
    c2 = reg._counter["occ"][""]
    if c2 < {counter} or len(set(pend)) != len(pend):
        ok = False
    for nm in pend:
        if nm in reg._symbols["occ"][""] or not (3 <= int(nm[1:]) < c2):
            ok = False
    for nm in NAMES:
        if int(nm[1:]) < c2 and nm not in pend and nm not in reg._symbols["occ"][""]:
            ok = False
    return ok
"""
            conds.append(chrun.Condition(f"registry_c{counter}_n{n}", src, timeout=tmo))
    # one step of an *explicit* request (get_indices) from an arbitrary valid pre-state,
    # followed by a generic request: the explicitly requested name is never handed out again
    for counter, n in ((3, 1), (3, 2), (4, 1), (4, 2), (5, 1), (5, 2)):
        src = _head(counter) + f"""
def h_explicit_{counter}_{n}(s0: int, s1: int, s2: int, s3: int, s4: int, s5: int, k: int) -> bool:
    '''
    pre: all(0 <= s <= 2 for s in (s0, s1, s2, s3, s4, s5))
    pre: all((int(NAMES[q][1:]) < {counter}) == (s != 0) or s == 2 for q, s in enumerate((s0, s1, s2, s3, s4, s5)))
    pre: all(s != 1 or int(NAMES[q][1:]) < {counter} for q, s in enumerate((s0, s1, s2, s3, s4, s5)))
    pre: 0 <= k < 8
    post: _
    '''
    status = [s0, s1, s2, s3, s4, s5, 0, 0, 0, 0]
    reg = _state(status)
    handed_out = set(nm for nm, st in zip(NAMES, status) if st == 2)
    name = NAMES[k]
    before = reg._symbols["occ"][""].get(name)
    got = reg.get_indices([name])[("occ", "")][0]
    ok = True
    if got.name != name or (before is not None and got is not before):
        ok = False
    if reg.get_indices([name])[("occ", "")][0] is not got:
        ok = False
    handed_out.add(name)
    # invariant after the explicit request
    pend = reg._generic_indices["occ"][""]
    if len(set(pend)) != len(pend) or any(nm in reg._symbols["occ"][""] for nm in pend):
        ok = False
    # a following generic request never returns a name handed out before
    res = reg.get_generic_indices(occ={n})[("occ", "")]
    names = [s.name for s in res]
    if len(set(names)) != {n} or any(nm in handed_out for nm in names):
        ok = False
    return ok
"""
        conds.append(chrun.Condition(f"explicit_c{counter}_n{n}", src, timeout=tmo))
    tw = conds[0].src
    conds.append(chrun.Condition("registry_tw__reach",
                                 chrun.twin(tw, "registry_3_1"), timeout=120, expect="refuted"))
    return conds
