"""
Order expansions of (1 + x)^(-1) and (1 + x)^(-1/2), x = sum_{k >= min_order} s_k lambda^k.

The library returns [(prefactor, [order tuples])]; its value is
    sum_pref  pref * sum_tuples prod_k s_{t_k}.
The reference coefficient of lambda^n is obtained from the defining identity by
recursion (no Taylor coefficients, no binomials):
    c (1 + x) = 1          ->  c_n = - sum_{k=min..n} s_k c_{n-k}
    y y (1 + x) = 1        ->  2 y_n = - sum_{(i,j,k) != (n,0,0),(0,n,0)} y_i y_j X_k
with symbolic s_k (commuting unknowns; that every ordering of a tuple is listed is
the completeness clause of gen_term_orders, executed symbolically in C02).
z3 decides `library polynomial != reference polynomial` (unsat = identical for all s).
"""
from fractions import Fraction

from .poly import SP, Vars
from .smt import check_equal


def _s(vars_, k):
    return SP({(vars_.get(("Y", f"s{k}")),): Fraction(1)})


def reference(order, min_order, half, vars_):
    X = [SP.const(1)] + [(_s(vars_, k) if k >= min_order else SP()) for k in range(1, order + 1)]
    c = [SP.const(1)]
    for n in range(1, order + 1):
        if not half:
            acc = SP()
            for k in range(1, n + 1):
                acc = acc + X[k] * c[n - k]
            c.append(-acc)
        else:
            acc = SP()
            for i in range(n + 1):
                for j in range(n + 1 - i):
                    k = n - i - j
                    if (i, j, k) in ((n, 0, 0), (0, n, 0)):
                        continue
                    acc = acc + c[i] * c[j] * X[k]
            c.append(acc * Fraction(-1, 2))
    return c[order]


def library_value(expansion, min_order, vars_):
    tot = SP()
    for pref, tuples in expansion:
        pref = Fraction(int(pref.p), int(pref.q)) if hasattr(pref, "p") else Fraction(pref)
        for t in tuples:
            term = SP.const(pref)
            for o in t:
                if o == 0:
                    continue                    # zeroth order: 1
                if o < min_order:
                    term = SP()                 # overlap contributions below min_order vanish
                    break
                term = term * _s(vars_, o)
            tot = tot + term
    return tot


def check(expansion_fn, half, thorough=False, timeout_ms=20000, seed=0):
    """returns list of result dicts (status equal / differ / unknown) per (order, min_order).
    Bounds: the library enumerates (order+1)^length candidate tuples, so the highest order
    per min_order is limited (quick: 6 / 8 / 9, thorough: 8 / 11 / 12 for min_order 1 / 2 / 3)."""
    out = []
    caps = {1: 8, 2: 11, 3: 12} if thorough else {1: 6, 2: 8, 3: 9}
    for mo, cap in caps.items():
        for n in range(0, cap + 1):
            vars_ = Vars()
            ref = reference(n, mo, half, vars_)
            if n == 0:
                continue
            lib = library_value(expansion_fn(n, mo), mo, vars_)
            v = check_equal([(0, lib.to_ml(), ref.to_ml())], vars_, timeout_ms=timeout_ms, seed=seed)
            st = {"unsat": "equal", "sat": "differ"}.get(v.status, "unknown")
            r = {"status": st, "order": n, "min_order": mo, "queries": 1, "solver_s": v.solver_s,
                 "unsat": int(st == "equal"), "sat": int(st == "differ"), "unknown": int(st == "unknown"),
                 "in": f"order {n}, min_order {mo}", "out": str(expansion_fn(n, mo))[:300]}
            if st == "differ":
                # replay: exact comparison of the two polynomials
                if (lib - ref).is_zero():
                    r["status"] = "harness"
                r["witness"] = {"values": {vars_.describe(k): str(x) for k, x in (v.model or {}).items()}}
            out.append(r)
    return out
