"""
Finite spin-orbital models and the harness' own reading of "declared tensor
symmetry".  Nothing in here calls adcgen.

Model(n_o, n_v)            spin-less: orbitals 0..n_o-1 occupied, rest virtual
Model(n_o, n_v, spin=True) spatial orbitals x {a, b}: spin orbital number
                           2*spatial + (0 for alpha, 1 for beta); an index
                           without spin label ranges over both spins.
"""
from itertools import product


class Model:
    def __init__(self, n_o: int, n_v: int, spin: bool = False):
        self.n_o, self.n_v, self.spin = n_o, n_v, spin
        self.n_spatial = n_o + n_v
        if spin:
            self.orbs = list(range(2 * self.n_spatial))
        else:
            self.orbs = list(range(self.n_spatial))
        self._ranges = {}

    # -- orbital attributes ---------------------------------------------------
    def spatial(self, orb: int) -> int:
        return orb // 2 if self.spin else orb

    def is_occ(self, orb: int) -> bool:
        return self.spatial(orb) < self.n_o

    def spin_of(self, orb: int) -> str:
        if not self.spin:
            return ""
        return "a" if orb % 2 == 0 else "b"

    def orb(self, spatial: int, spin: str = "") -> int:
        if not self.spin:
            return spatial
        return 2 * spatial + (0 if spin == "a" else 1)

    def range_of(self, space: str, spin: str = ""):
        key = (space, spin)
        r = self._ranges.get(key)
        if r is None:
            if spin and not self.spin:
                raise ValueError("spin-labelled index in a spin-less model")
            r = []
            for o in self.orbs:
                if space == "o" and not self.is_occ(o):
                    continue
                if space == "v" and self.is_occ(o):
                    continue
                if spin and self.spin_of(o) != spin:
                    continue
                r.append(o)
            self._ranges[key] = r
        return r

    def idx_range(self, idx):
        return self.range_of(idx[1], idx[2])

    def assignments(self, indices):
        """All assignments of orbitals to the given (ordered) indices."""
        indices = list(indices)
        ranges = [self.idx_range(s) for s in indices]
        for combo in product(*ranges):
            yield dict(zip(indices, combo))

    def __repr__(self):
        return f"{self.n_o}o{self.n_v}v" + ("-spin" if self.spin else "")

    @property
    def tag(self):
        return repr(self)


# -----------------------------------------------------------------------------
# independent canonicalisation of tensor entries
# -----------------------------------------------------------------------------

def sort_parity(seq):
    """Bubble sort. Returns (sorted tuple, number of swaps mod 2, has_repeat)."""
    a = list(seq)
    swaps = 0
    n = len(a)
    for i in range(n):
        for j in range(n - 1 - i):
            if a[j] > a[j + 1]:
                a[j], a[j + 1] = a[j + 1], a[j]
                swaps += 1
    rep = any(a[i] == a[i + 1] for i in range(n - 1))
    return tuple(a), swaps % 2, rep


def canon_entry(kind: str, U, L, bks: int):
    """
    Canonical representative of the orbit of the entry (U | L) under the
    declared symmetry.

    kind 'A' : antisymmetric within U and within L
    kind 'S' : symmetric within U and within L
    bks      : 0 / +1 / -1  (exchange of U and L, only if len(U) == len(L))
    Returns (sign, (U', L')) with sign in {+1, -1, 0}.
    """
    if kind == "A":
        U2, pu, ru = sort_parity(U)
        L2, pl, rl = sort_parity(L)
        if ru or rl:
            return 0, None
        sign = -1 if (pu + pl) % 2 else 1
    elif kind == "S":
        U2, L2 = tuple(sorted(U)), tuple(sorted(L))
        sign = 1
    else:
        raise ValueError(kind)
    if bks and len(U2) == len(L2):
        if L2 < U2:
            U2, L2 = L2, U2
            sign *= bks
        elif L2 == U2 and bks == -1:
            return 0, None
    return sign, (U2, L2)
