"""
Explicit intermediate-state construction in determinant space (E2), as power
series in the perturbation parameter, with the ground-state wavefunction
parametrised by free amplitude unknowns (see pt.py).

  Psi^   = a(lambda) Psi,      a a <Psi|Psi> = 1          (series, recursion)
  |I#>   = C_I Psi^ - [pp] Psi^ <Psi^|C_I Psi^> - sum_{lower classes} sum_J |J~><J~|C_I Psi^>
  S_IJ   = <I#|J#>,   X = S^(-1/2)  from  X X S = 1  order by order (no Taylor formula)
  |I~>   = sum_J |J#> X_JI ,   <I~| = sum_J X_IJ <J#|
  M_IJ   = <I~| H0 + lambda H1 - E(lambda) |J~>

Bra and ket are carried separately (ket built from t<n>, bra from the
independent unknowns t<n>cc); all algebra is real-linear in the coefficients.
"""
from fractions import Fraction
from itertools import combinations
from math import factorial

from .poly import SP
from .detref import Vec, CRE, ANN, apply_string
from .pt import PT

VARIANTS = {"pp": "ph", "ip": "h", "ea": "p", "dip": "hh", "dea": "pp"}


def _zero_series(n):
    return [SP() for _ in range(n + 1)]


def sp_series_mul(a, b, n):
    out = _zero_series(n)
    for i, x in enumerate(a):
        if x.is_zero():
            continue
        for j, y in enumerate(b):
            if i + j > n or y.is_zero():
                continue
            out[i + j] = out[i + j] + x * y
    return out


def vec_series_scale(vs, ss, n):
    """(series of Vec) * (series of SP)"""
    out = [Vec() for _ in range(n + 1)]
    for i, v in enumerate(vs):
        if v.is_zero():
            continue
        for j, s in enumerate(ss):
            if i + j > n or s.is_zero():
                continue
            out[i + j] = out[i + j] + v.scale(s)
    return out


def vec_series_dot(a, b, n):
    out = _zero_series(n)
    for i, x in enumerate(a):
        if x.is_zero():
            continue
        for j, y in enumerate(b):
            if i + j > n or y.is_zero():
                continue
            out[i + j] = out[i + j] + x.dot(y)
    return out


def inv_sqrt_scalar(S, n):
    """a with a*a*S = 1, S[0] = 1."""
    a = _zero_series(n)
    a[0] = SP.const(1)
    for k in range(1, n + 1):
        acc = SP()
        for i in range(k + 1):
            for j in range(k + 1 - i):
                c = k - i - j
                if i == k or j == k:
                    continue
                acc = acc + a[i] * a[j] * S[c]
        a[k] = acc * Fraction(-1, 2)
    return a


class ISR:
    def __init__(self, pt: PT, variant: str, order: int):
        self.pt, self.variant, self.N = pt, variant, order
        self.n_o, self.n = pt.n_o, pt.n
        self.min_space = VARIANTS[variant]
        self._classes = {}
        self._gs = None

    # -- spaces ---------------------------------------------------------------------
    def spaces_upto(self, space):
        """All spaces of the variant from the minimal one up to `space`."""
        out = [self.min_space]
        while out[-1] != space:
            out.append("p" + out[-1] + "h")
            if len(out) > 6:
                raise ValueError(f"{space} is not a space of {self.variant}")
        return out

    def tuples(self, space):
        """Restricted index tuples (occ sorted, virt sorted) of a space."""
        nh, np_ = space.count("h"), space.count("p")
        return [(I, A) for I in combinations(range(self.n_o), nh)
                for A in combinations(range(self.n_o, self.n), np_)]

    @staticmethod
    def c_ops(occ, virt):
        """C_I = a+_a1 a+_a2 .. a_i1 a_i2 ..  (annihilators not reversed)."""
        return [(CRE, a) for a in virt] + [(ANN, i) for i in occ]

    # -- ground state ----------------------------------------------------------------
    def gs(self):
        if self._gs is not None:
            return self._gs
        n = self.N
        ket = [self.pt.psi(m) for m in range(n + 1)]
        bra = [self.pt.psi(m, bra=True) for m in range(n + 1)]
        S = vec_series_dot(bra, ket, n)
        a = inv_sqrt_scalar(S, n)
        self._gs = (vec_series_scale(ket, a, n), vec_series_scale(bra, a, n))
        return self._gs

    def _apply(self, ops, series):
        out = []
        for v in series:
            w = Vec()
            for det, c in v.c.items():
                r = apply_string(ops, det)
                if r is not None:
                    w.add(r[1], c * r[0])
            out.append(w)
        return out

    # -- classes ---------------------------------------------------------------------
    def cls(self, space):
        """{'tuples': [...], 'pre': [(ket series, bra series)], 'isr': [...], 'S': matrix series}"""
        if space in self._classes:
            return self._classes[space]
        n = self.N
        lower = self.spaces_upto(space)[:-1]
        lower_cls = [self.cls(sp) for sp in lower]
        gk, gb = self.gs()
        tuples = self.tuples(space)
        pre = []
        for (I, A) in tuples:
            ops = self.c_ops(I, A)
            sides = []
            for prim, sec in ((gk, gb), (gb, gk)):
                st = self._apply(ops, prim)
                if self.variant == "pp":
                    ov = vec_series_dot(sec, st, n)            # <Psi^|C_I Psi^>
                    proj = vec_series_scale(prim, ov, n)
                    st = [x - y for x, y in zip(st, proj)]
                cpsi = self._apply(ops, prim)
                for lc in lower_cls:
                    for (jk, jb) in lc["isr"]:
                        jprim, jsec = (jk, jb) if prim is gk else (jb, jk)
                        ov = vec_series_dot(jsec, cpsi, n)      # <J~|C_I Psi^>
                        proj = vec_series_scale(jprim, ov, n)
                        st = [x - y for x, y in zip(st, proj)]
                sides.append(st)
            pre.append((sides[0], sides[1]))
        dim = len(tuples)
        S = [[vec_series_dot(pre[i][1], pre[j][0], n) for j in range(dim)] for i in range(dim)]
        X = self._inv_sqrt_matrix(S, dim, n)
        isr = []
        for i in range(dim):
            ket = [Vec() for _ in range(n + 1)]
            bra = [Vec() for _ in range(n + 1)]
            for j in range(dim):
                kj = vec_series_scale(pre[j][0], X[j][i], n)
                bj = vec_series_scale(pre[j][1], X[i][j], n)
                ket = [x + y for x, y in zip(ket, kj)]
                bra = [x + y for x, y in zip(bra, bj)]
            isr.append((ket, bra))
        out = {"tuples": tuples, "pre": pre, "isr": isr, "S": S,
               "index": {t: k for k, t in enumerate(tuples)}}
        self._classes[space] = out
        return out

    def _inv_sqrt_matrix(self, S, dim, n):
        """X (matrix of series) with X X S = 1, X[0] = 1; requires S[0] = 1."""
        for i in range(dim):
            for j in range(dim):
                s0 = S[i][j][0]
                want = SP.const(1 if i == j else 0)
                if not (s0 - want).is_zero():
                    raise ValueError("zeroth-order precursor overlap is not the unit matrix")
        from fractions import Fraction
        half = SP.const(Fraction(-1, 2))
        X = [[_zero_series(n) for _ in range(dim)] for _ in range(dim)]
        for i in range(dim):
            X[i][i][0] = SP.const(1)
        for k in range(1, n + 1):
            for i in range(dim):
                for j in range(dim):
                    acc = SP()
                    for a in range(k + 1):
                        for b in range(k + 1 - a):
                            c = k - a - b
                            if a == k or b == k:
                                continue
                            # (X^a X^b S^c)_ij
                            for p in range(dim):
                                xa = X[i][p][a]
                                if xa.is_zero():
                                    continue
                                for q in range(dim):
                                    xb = X[p][q][b]
                                    if xb.is_zero():
                                        continue
                                    sc = S[q][j][c]
                                    if sc.is_zero():
                                        continue
                                    acc = acc + xa * xb * sc
                    X[i][j][k] = acc * half
        return X

    # -- element access ---------------------------------------------------------------
    def _locate(self, space, occ, virt):
        """sorted tuple, sign (0 if an index repeats)."""
        from .model import sort_parity
        so, po, ro = sort_parity(occ)
        sv, pv, rv = sort_parity(virt)
        if ro or rv:
            return None, 0
        return (so, sv), (-1 if (po + pv) % 2 else 1)

    def state(self, kind, space, occ, virt):
        """(sign, (ket series, bra series)) of the precursor / intermediate state."""
        key, sign = self._locate(space, occ, virt)
        if not sign:
            return 0, None
        c = self.cls(space)
        return sign, c[kind][c["index"][key]]

    def overlap(self, kind, order, sp1, o1, v1, sp2, o2, v2):
        s1, a = self.state(kind, sp1, o1, v1)
        s2, b = self.state(kind, sp2, o2, v2)
        if not s1 or not s2:
            return SP()
        return vec_series_dot(a[1], b[0], order)[order] * (s1 * s2)

    def h_series(self, subtract_gs=True):
        return [self.pt.hamiltonian("h0"), self.pt.hamiltonian("h1")]

    def matrix(self, kind, order, sp1, o1, v1, sp2, o2, v2, subtract_gs=True):
        """order-n coefficient of <I| H0 + lambda H1 - E |J>."""
        s1, a = self.state(kind, sp1, o1, v1)
        s2, b = self.state(kind, sp2, o2, v2)
        if not s1 or not s2:
            return SP()
        hs = self.h_series()
        tot = SP()
        for kb in range(order + 1):
            bra = a[1][kb]
            if bra.is_zero():
                continue
            for ko in range(order + 1 - kb):
                kk = order - kb - ko
                ket = b[0][kk]
                if ket.is_zero():
                    continue
                if ko < 2:
                    tot = tot + bra.dot(hs[ko].apply(ket))
                if subtract_gs:
                    e = self.pt.energy(ko)
                    if not e.is_zero():
                        tot = tot - bra.dot(ket) * e
        return tot * (s1 * s2)

    def op_matrix(self, kind, order, op, gs_expec, sp1, o1, v1, sp2, o2, v2):
        """order-n coefficient of <I| D - <D>_0 |J> with D a zeroth-order operator;
        gs_expec: series of the ground-state expectation value (or None)."""
        s1, a = self.state(kind, sp1, o1, v1)
        s2, b = self.state(kind, sp2, o2, v2)
        if not s1 or not s2:
            return SP()
        tot = SP()
        for kb in range(order + 1):
            bra = a[1][kb]
            if bra.is_zero():
                continue
            for kk in range(order + 1 - kb):
                ko = order - kb - kk
                ket = b[0][kk]
                if ket.is_zero():
                    continue
                if ko == 0:
                    tot = tot + bra.dot(op.apply(ket))
                if gs_expec is not None and not gs_expec[ko].is_zero():
                    tot = tot - bra.dot(ket) * gs_expec[ko]
        return tot * (s1 * s2)


def norm_pref_sq(space):
    """n_o! n_v! of a space string."""
    return factorial(space.count("h")) * factorial(space.count("p"))
