"""
Subprocess worker for C19: performs a seeded *history* of API calls, then one
request, and prints (base64 pickle) the IR of the result, its text after
substitute_contracted, the target indices and bookkeeping for the freshness checks.
Run with a chosen PYTHONHASHSEED (and optionally a scratch copy of the package
with another tensor_names.json first on PYTHONPATH).
"""
import base64
import os
import pickle
import random
import sys

os.environ.setdefault("ADCGEN_LOG_LEVEL", "ERROR")


def history(rng, n):
    from adcgen import (Operators, GroundState, IntermediateStates, SecularMatrix, Properties,
                        Intermediates, Expr, simplify)
    from adcgen.indices import Indices, get_symbols
    log = []
    for _ in range(n):
        k = rng.randrange(16)
        try:
            if k == 0:
                GroundState(Operators("mp")).energy(rng.choice([1, 2]))
            elif k == 1:
                GroundState(Operators(rng.choice(["mp", "re"]))).psi(rng.choice([1, 2]), rng.choice(["bra", "ket"]))
            elif k == 2:
                Indices().get_generic_indices(occ=rng.randint(1, 9), virt=rng.randint(0, 5))
            elif k == 3:
                get_symbols(rng.choice(["i7a9", "k3c3j12", "o3h3", "p4q5", "i", "a1b2"]))
            elif k == 4:
                Indices().get_generic_indices(occ_a=rng.randint(1, 3), general=rng.randint(0, 2))
            elif k == 5:
                IntermediateStates(GroundState(Operators("mp")), "pp").precursor(1, "ph", "ket", "ia")
            elif k == 6:
                Intermediates().available[rng.choice(["t2_1", "t1_2", "p0_2_oo"])].expand_itmd()
            elif k == 7:
                GroundState(Operators("mp")).norm_factor(2)
            elif k == 8:
                g = GroundState(Operators("mp"))
                simplify(Expr(g.energy(2)))
            elif k == 9:
                GroundState(Operators("mp"), first_order_singles=True).amplitude(1, "ph", "ia")
            elif k == 10:
                SecularMatrix(IntermediateStates(GroundState(Operators("mp")), "ip")).isr_matrix_block(1, "h,h", "i,j")
            # the same method with the same arguments on differently configured objects (other
            # partitioning / variant): results cached per object must not leak between objects
            elif k == 12:
                SecularMatrix(IntermediateStates(GroundState(Operators("re")), "pp")).isr_matrix_block(0, "ph,ph", "ia,jb")
            elif k == 13:
                SecularMatrix(IntermediateStates(GroundState(Operators("mp")), "ip")).expectation_value(0)
            elif k == 14:
                SecularMatrix(IntermediateStates(GroundState(Operators("re")), "pp")).mvp_block_order(1, "ph", "ph,ph", "ia")
            elif k == 15:
                GroundState(Operators("re")).energy(2)
                IntermediateStates(GroundState(Operators("mp"), first_order_singles=True), "pp").overlap_precursor(2, "ph,ph", "ia,jb")
            else:
                Expr(GroundState(Operators("mp")).energy(2)).substitute_contracted()
            log.append(k)
        except Exception as exc:      # a failing history call is reported, not hidden
            log.append(f"{k}:{type(exc).__name__}")
    return log


REQUESTS = {
    "energy2": ("", lambda A: A["gs"].energy(2)),
    "energy3": ("", lambda A: A["gs"].energy(3)),
    "amp2_ph": ("ia", lambda A: A["gs"].amplitude(2, "ph", "ia")),
    "amp2_pphh": ("ijab", lambda A: A["gs"].amplitude(2, "pphh", "ijab")),
    "re_res2": ("ia", lambda A: A["gs_re"].amplitude_residual(2, "ph", "ia")),
    "dens2": ("", lambda A: A["gs"].expectation_value(2, 1)),
    "ovl_pre2": ("iajb", lambda A: A["isr"].overlap_precursor(2, "ph,ph", "ia,jb")),
    "m_phph2": ("iajb", lambda A: A["m"].isr_matrix_block(2, "ph,ph", "ia,jb")),
    "m_ip_hphh1": ("ijka", lambda A: A["m_ip"].isr_matrix_block(1, "h,phh", "i,jka")),
    "mvp_ph1": ("ia", lambda A: A["m"].mvp_block_order(1, "ph", "ph,ph", "ia")),
    "tm_ph2": ("", lambda A: A["prop"].trans_moment_space(2, "ph")),
    "itmd_t2_2": ("ijab", lambda A: A["itmd"].available["t2_2"].expand_itmd(indices="ijab").sympy),
    "singles1": ("ia", lambda A: A["gs_s"].amplitude(1, "ph", "ia")),
    "m_phph0": ("iajb", lambda A: A["m"].isr_matrix_block(0, "ph,ph", "ia,jb")),
    "ev0": ("", lambda A: A["m"].expectation_value(0)),
    # no value: the products of wavefunctions inside the precursor states are scanned for indices
    # that occur more than twice in a term (two factors sharing their contracted indices)
    "wf_products": ("", lambda A: 0),
    # TensorNames.rename_tensors on an expression written with the default names
    "rename_cfg": ("", lambda A: _rename_cfg()),
}


def _rename_cfg():
    from adcgen import Expr
    from adcgen.indices import get_symbols
    from adcgen.tensor_names import tensor_names
    from adcgen.sympy_objects import AntiSymmetricTensor, Amplitude, NonSymmetricTensor
    i, j, a, b = get_symbols("ijab")
    e = (Amplitude("X", (a,), (i,)) * Amplitude("Y", (b,), (j,)) * AntiSymmetricTensor("d", (a,), (b,))
         * AntiSymmetricTensor("f", (i,), (j,))
         + AntiSymmetricTensor("V", (a, b), (i, j)) * Amplitude("t1", (a, b), (i, j)) / 4
         + NonSymmetricTensor("e", (i,)) * AntiSymmetricTensor("p2", (i,), (j,)) * AntiSymmetricTensor("f", (j,), (i,))
         + 2 * AntiSymmetricTensor("D", (i,), (a,)) * Amplitude("X", (a,), (i,))
         + AntiSymmetricTensor("v", (a, b), (i, j)) * Amplitude("t2cc", (a, b), (i, j)) * Amplitude("Y", (a,), (i,))
         * Amplitude("Y", (b,), (j,)))
    return tensor_names.rename_tensors(Expr(e)).sympy


def overfull_terms(expr):
    """terms of the (expanded) expression in which an index occurs more than twice"""
    from sympy import Add, sympify
    from vlib import ir as IR
    bad = []
    for t in Add.make_args(sympify(expr).expand()):
        cnt = {}
        for s in IR.term_indices(IR.term_ir(t)):
            cnt[s] = cnt.get(s, 0) + 1
        if any(c > 2 for c in cnt.values()):
            bad.append(str(t)[:200])
    return bad


def main():
    req, hseed, hlen = sys.argv[1], int(sys.argv[2]), int(sys.argv[3])
    sys.path.insert(0, os.path.dirname(os.path.dirname(os.path.abspath(__file__))))
    from adcgen import (Operators, GroundState, IntermediateStates, SecularMatrix, Properties,
                        Intermediates, Expr)
    from adcgen.indices import get_symbols, Index
    from sympy import sympify
    from vlib import ir as IR
    from vlib.tv import expand_numer
    rng = random.Random(hseed)
    hlog = history(rng, hlen)
    gs = GroundState(Operators("mp"))
    A = {"gs": gs, "gs_re": GroundState(Operators("re")),
         "gs_s": GroundState(Operators("mp"), first_order_singles=True),
         "isr": IntermediateStates(gs, "pp"), "itmd": Intermediates()}
    A["m"] = SecularMatrix(A["isr"])
    A["m_ip"] = SecularMatrix(IntermediateStates(gs, "ip"))
    A["prop"] = Properties(A["isr"])
    tstr, fn = REQUESTS[req]
    res = sympify(fn(A))
    T = get_symbols(tstr) if tstr else []
    e = Expr(expand_numer(res), target_idx=T)
    text = str(e.copy().substitute_contracted())
    # freshness: repeated wavefunctions / norm factors never share contracted indices
    shared = []
    sets = []
    for k in range(4):
        obj = gs.psi(2, "ket") if k % 2 == 0 else gs.norm_factor(2)
        s = {(x.name, x.space, x.spin) for x in sympify(obj).atoms(Index)}
        for prev in sets:
            if prev & s:
                shared.append(sorted(prev & s))
        sets.append(s)
    # ... and neither do repeated expansions of one registered intermediate
    for nm, t1, t2 in (("t2_2", "ijab", "klcd"), ("t1_2", "ia", "ld"), ("p0_2_oo", "ij", "lm"),
                       ("t2eri_4", "ijab", "lmde"), ("t3_2", "ijkabc", "mnoefg")):
        it = A["itmd"].available[nm]
        s1 = {(x.name, x.space, x.spin) for x in sympify(it.expand_itmd(indices=t1).sympy).atoms(Index)}
        s2 = {(x.name, x.space, x.spin) for x in sympify(it.expand_itmd(indices=t2).sympy).atoms(Index)}
        tg = {(x.name, x.space, x.spin) for x in get_symbols(t1 + t2)}
        if (s1 & s2) - tg:
            shared.append([nm] + sorted((s1 & s2) - tg))
    if req == "wf_products":
        # products of overlap factors inside the norm factor (two equal factors first occur at order 4)
        for order in (2, 3, 4):
            bad = overfull_terms(gs.norm_factor(order))
            if bad:
                shared.append([f"norm_factor({order}): index more than twice in {len(bad)} term(s), e.g. {bad[0]}"])
        for tag, g in (("mp", gs), ("mp+singles", A["gs_s"])):
            isr = IntermediateStates(g, "pp")
            for order in (2, 3):
                for bk in ("bra", "ket"):
                    bad = overfull_terms(isr.precursor(order, "ph", bk, "ia"))
                    if bad:
                        shared.append([f"precursor({order}, 'ph', '{bk}') [{tag}]: index more than twice in "
                                       f"{len(bad)} term(s), e.g. {bad[0]}"])
    # identical requests return identical objects
    ident = all(get_symbols(n)[0] is get_symbols(n)[0] for n in ["i", "a3", "p", "k12"])
    out = {"ir": IR.expr_ir(e.sympy), "text": text, "target": [IR.idx_ir(s) for s in T],
           "history": hlog, "shared": shared, "identical": ident,
           "hashseed": os.environ.get("PYTHONHASHSEED"), "n_terms": len(e)}
    sys.stdout.write("RESULT:" + base64.b64encode(pickle.dumps(out)).decode() + "\n")


if __name__ == "__main__":
    main()
