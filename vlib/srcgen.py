"""
Regenerates adcgen kernels from /repo's *current* source for symbolic
execution.  Every transformation is a documented re-binding (see DESIGN.md,
"E3 rebinding table"); nothing is cached between runs.
"""
import ast
import os

REPO = os.environ.get("VERIF_REPO", "/repo")   # checks always run against /repo; the override only serves scratch evaluation of seeded changes


def _find(tree, qualname):
    parts = qualname.split(".")
    node = tree
    for p in parts:
        for child in ast.iter_child_nodes(node):
            if isinstance(child, (ast.FunctionDef, ast.ClassDef)) and child.name == p:
                node = child
                break
        else:
            raise KeyError(f"{qualname} not found")
    return node


def load(relpath, qualname):
    with open(os.path.join(REPO, relpath)) as fh:
        tree = ast.parse(fh.read())
    return _find(tree, qualname)


class _IsToEq(ast.NodeTransformer):
    """`a is b` -> `a == b`, `a is not b` -> `a != b` unless comparing to None."""

    def visit_Compare(self, node):
        self.generic_visit(node)
        new_ops = []
        for op, comp in zip(node.ops, node.comparators):
            is_none = isinstance(comp, ast.Constant) and comp.value is None
            if isinstance(op, ast.Is) and not is_none:
                new_ops.append(ast.Eq())
            elif isinstance(op, ast.IsNot) and not is_none:
                new_ops.append(ast.NotEq())
            else:
                new_ops.append(op)
        node.ops = new_ops
        return node


class _DropLocalImports(ast.NodeTransformer):
    def visit_ImportFrom(self, node):
        return ast.Pass()

    def visit_Import(self, node):
        return ast.Pass()


class _RenameCalls(ast.NodeTransformer):
    def __init__(self, mapping):
        self.mapping = mapping

    def visit_Call(self, node):
        self.generic_visit(node)
        if isinstance(node.func, ast.Name) and node.func.id in self.mapping:
            repl = self.mapping[node.func.id]
            return ast.Call(func=ast.Name(id=repl, ctx=ast.Load()), args=[], keywords=[])
        return node


class _StripAnnotations(ast.NodeTransformer):
    def visit_FunctionDef(self, node):
        self.generic_visit(node)
        node.returns = None
        for a in node.args.args + node.args.kwonlyargs:
            a.annotation = None
        node.decorator_list = []
        # drop the docstring (PEP316 parser would read it as a contract)
        if (node.body and isinstance(node.body[0], ast.Expr)
                and isinstance(node.body[0].value, ast.Constant)
                and isinstance(node.body[0].value.value, str)):
            node.body = node.body[1:] or [ast.Pass()]
        return node

    def visit_AnnAssign(self, node):
        self.generic_visit(node)
        if node.value is None:
            return ast.Pass()
        return ast.Assign(targets=[node.target], value=node.value)


def regenerate(relpath, qualname, new_name=None, is_to_eq=True, drop_imports=True,
               call_map=None, cut_return_to=None):
    """
    Returns python source of the function.
    cut_return_to: name of a local variable; the *last* return statement of the
                   function is replaced by `return <that variable>`.
    """
    fn = load(relpath, qualname)
    fn = _StripAnnotations().visit(fn)
    if drop_imports:
        fn = _DropLocalImports().visit(fn)
    if is_to_eq:
        fn = _IsToEq().visit(fn)
    if call_map:
        fn = _RenameCalls(call_map).visit(fn)
    if cut_return_to:
        for i in range(len(fn.body) - 1, -1, -1):
            if isinstance(fn.body[i], ast.Return):
                fn.body[i] = ast.Return(value=ast.Name(id=cut_return_to, ctx=ast.Load()))
                break
    if new_name:
        fn.name = new_name
    ast.fix_missing_locations(fn)
    return ast.unparse(fn)
