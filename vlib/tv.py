"""
Translation validation of one run of a real adcgen function:
    value(A | T, tau) == value(B | T, tau)   for all tensor values and all tau
decided by z3 over a finite orbital model, with concrete replay of any model.
"""
import time
from fractions import Fraction

from sympy import S

from . import ir as IR
from .model import Model
from .poly import (Vars, FreeValuation, spec_from, expr_value, Undefined,
                   Unsupported)
from .smt import check_equal
from .replay import NumericValues, eval_sympy


class HarnessError(Exception):
    """A solver model that does not reproduce concretely, or an encoder
    self-test failure.  Never reported as a violation."""


class Outcome:
    """Result of one comparison."""

    def __init__(self):
        self.status = None          # 'equal' | 'differ' | 'unknown' | 'skipped'
        self.queries = 0
        self.unsat = self.sat = self.unknown = 0
        self.stage2 = 0
        self.solver_s = 0.0
        self.encode_s = 0.0
        self.n_assignments = 0
        self.n_monomials = 0
        self.n_vars = 0
        self.witness = None         # dict describing the replayed counterexample
        self.note = ""
        self.visibility = None      # (detected, tried) for perturbed outputs

    def as_dict(self):
        return {k: v for k, v in self.__dict__.items() if k != "witness"}


def _sympy_of(e):
    if hasattr(e, "sympy") and not hasattr(e, "is_Add"):
        return e.sympy
    try:
        if hasattr(e, "_expr") or hasattr(e, "_sympy"):
            return e.sympy
    except Exception:
        pass
    return S(e) if isinstance(e, (int, Fraction)) else e


def expand_numer(e):
    """Distributes sums that occur as factors with a positive exponent (numerators);
    denominators (negative exponents) are left untouched, unlike sympy's expand."""
    from sympy import Add, Mul, Pow
    if isinstance(e, Add):
        return Add(*[expand_numer(a) for a in e.args])
    if isinstance(e, Pow) and isinstance(e.args[0], Add) and e.args[1].is_Integer \
            and e.args[1] > 0:
        return expand_numer(Mul(e.args[0], Pow(e.args[0], e.args[1] - 1)))
    if isinstance(e, Mul):
        args = list(e.args)
        for k, f in enumerate(args):
            base = None
            if isinstance(f, Add):
                base, rest = f, None
            elif isinstance(f, Pow) and isinstance(f.args[0], Add) and f.args[1].is_Integer \
                    and f.args[1] > 0:
                base, rest = f.args[0], Pow(f.args[0], f.args[1] - 1)
            if base is not None:
                others = args[:k] + args[k + 1:]
                if rest is not None and rest != 1:
                    others.append(rest)
                return Add(*[expand_numer(Mul(*others, t)) for t in base.args])
        return e
    return e


def default_target(irs):
    """Union over all terms of the indices occurring exactly once."""
    T = set()
    for terms in irs:
        for t in terms:
            T |= IR.einstein_target(t)
    return T


def compare(A, B, target, model: Model, *, val_opts=None, timeout_ms=20000,
            seed=0, max_assignments=None, replay=True, spec_extra=None,
            valuation_factory=None, target_B=None, fixed_B=None):
    """
    A, B     adcgen containers or sympy objects
    target   iterable of Index *objects* (sympy) that are fixed by tau
    """
    out = Outcome()
    refA = A if callable(A) and not hasattr(A, "args") else None
    A, B = (None if refA else expand_numer(_sympy_of(A))), expand_numer(_sympy_of(B))
    t0 = time.time()
    irA, irB = ([] if refA else IR.expr_ir(A)), IR.expr_ir(B)
    vars_ = Vars()
    spec = spec_from(irA, irB, *(getattr(refA, "irs", []) or []), extra=spec_extra)
    if valuation_factory is not None:
        val = valuation_factory(vars_, model, spec)
    else:
        val = FreeValuation(vars_, model, spec, **(val_opts or {}))
    tobj = {IR.idx_ir(s): s for s in target}
    T = sorted(tobj)
    # target_B: the target indices of B that correspond (position by position) to
    # `target` of A when the two expressions use different index objects (spin
    # integration); the assignments are enumerated over B's (more restrictive) indices
    mapB = None
    if target_B is not None:
        tobjB = {IR.idx_ir(s): s for s in target_B}
        mapB = {IR.idx_ir(b): IR.idx_ir(a) for a, b in zip(target, target_B)}
        T = sorted(tobjB)
    pairs, taus = [], []
    n_undefined = n_trivial = 0
    all_tau = model.assignments(T)
    if max_assignments is not None:
        # a bounded number of assignments: those that give all targets different orbitals
        # first (repeated orbitals mostly hit entries that vanish by antisymmetry)
        all_tau = sorted(all_tau, key=lambda t: -len(set(t.values())))
    for n, tau in enumerate(all_tau):
        if max_assignments is not None and len(pairs) >= max_assignments:
            break
        tauA = tau if mapB is None else {mapB[k]: o for k, o in tau.items()}
        if mapB is not None and len(tauA) != len({mapB[k] for k in tau}):
            continue
        if mapB is not None:
            # a repeated target index of A must receive one orbital
            ok = True
            chk = {}
            for k, o in tau.items():
                if chk.setdefault(mapB[k], o) != o:
                    ok = False
            if not ok:
                continue
        try:
            a = refA(model, val, tauA) if refA else expr_value(irA, model, val, tauA)
            b = expr_value(irB, model, val, tau)
        except Undefined:
            n_undefined += 1
            continue
        if not a and not b:
            n_trivial += 1          # both sides structurally zero at this assignment
            continue
        pairs.append((len(taus), a, b))
        taus.append(tau)
        out.n_monomials += len(a) + len(b)
    out.encode_s = time.time() - t0
    out.n_assignments = len(pairs)
    out.n_vars = len(vars_)
    if n_undefined:
        out.note += f"{n_undefined} assignments without value (pole) skipped; "
    if n_trivial:
        out.note += f"{n_trivial} assignments with both sides structurally zero; "
    if not pairs:
        out.status = "equal" if n_trivial else "skipped"
        return out
    v = check_equal(pairs, vars_, timeout_ms=timeout_ms, seed=seed)
    out.queries += 1
    out.solver_s += v.solver_s
    if v.stage == 2:
        out.stage2 += 1
    if v.status == "unsat":
        out.unsat += 1
        out.status = "equal"
        return out
    if v.status != "sat":
        out.unknown += 1
        out.status = "unknown"
        out.note += v.note
        return out
    out.sat += 1
    # ---- replay --------------------------------------------------------------
    tau = taus[v.which] if v.which is not None else taus[0]
    numeric = NumericValues(vars_, v.model)
    cand = [tau] if v.which is not None else taus
    found = None
    for tau in cand:
        if mapB is None:
            asg_obj = {tobj[k]: o for k, o in tau.items()}
            asg_objB, tauA = asg_obj, tau
        else:
            tauA = {mapB[k]: o for k, o in tau.items()}
            asg_obj = {tobj[k]: o for k, o in tauA.items()}
            asg_objB = {tobjB[k]: o for k, o in tau.items()}
        try:
            if refA:
                from sympy import nsimplify
                va = nsimplify(numeric.ml(refA(model, val, tauA)))
            else:
                va = eval_sympy(A, model, val, numeric, asg_obj)
            vb = eval_sympy(B, model, val, numeric, asg_objB)
        except ZeroDivisionError:
            continue
        if (va - vb).simplify() != 0:
            found = (tau, va, vb)
            break
    if found is None:
        if not replay:
            out.status = "differ"
            return out
        raise HarnessError("solver model does not reproduce in the concrete "
                           f"evaluator (stage {v.stage})")
    tau, va, vb = found
    out.status = "differ"
    out.witness = {
        "model_space": model.tag,
        "target_assignment": {IR.idx_str(k): o for k, o in tau.items()},
        "tensor_values": {vars_.describe(i): str(x)
                          for i, x in sorted(numeric.vals.items())
                          if x != 0 and vars_.keys[i][0] != "I"},
        "value_A": str(va), "value_B": str(vb), "stage": v.stage,
    }
    return out


def perturb(expr_sympy, k, factor=2):
    """Multiply the k-th term of a sympy Add by `factor` (vacuity guard)."""
    from sympy import Add
    terms = list(expr_sympy.args) if isinstance(expr_sympy, Add) else [expr_sympy]
    k %= len(terms)
    terms[k] = terms[k] * factor
    return Add(*terms)


def cost_estimate(irs, T, model):
    """Rough number of leaf assignments needed to encode the expressions."""
    tot = 0
    nT = 1
    for s in T:
        nT *= max(1, len(model.idx_range(s)))
    for terms in irs:
        for t in terms:
            c = 1
            for s in IR.term_index_set(t):
                if s not in T:
                    c *= max(1, len(model.idx_range(s)))
            tot += c
    return tot * nT


def pick_model(irs, T, candidates, budget=300000):
    """First candidate model whose estimated encoding cost fits the budget."""
    for m in candidates:
        try:
            if cost_estimate(irs, T, m) <= budget:
                return m
        except ValueError:
            continue
    return candidates[-1]


def rename_contracted(term, contracted, rng, pool, keep=()):
    """alpha-renaming of a sympy term: random bijection of the contracted
    indices onto names of the same space and spin that are not in `keep`."""
    from adcgen.indices import get_symbols
    groups = {}
    for s in contracted:
        groups.setdefault((s.space[0], s.spin), []).append(s)
    sub = {}
    keepn = {(s.name, s.spin) for s in keep}
    for (sp, spin), lst in groups.items():
        names = [n for n in pool[sp] if (n, spin) not in keepn]
        picked = rng.sample(names, len(lst))
        for s, n in zip(lst, picked):
            sub[s] = get_symbols(n, spin)[0] if spin else get_symbols(n)[0]
    return term.xreplace(sub), sub


def normalise_ir(terms):
    """Drops the process-specific identity (uid) of indices: two indices are the same
    iff name, space and spin agree (valid for registry indices)."""
    def nidx(s):
        return (s[0], s[1], s[2], 0)

    def nf(f):
        k = f[0]
        if k == "t":
            return (k, f[1], f[2], tuple(map(nidx, f[3])), tuple(map(nidx, f[4])), f[5], f[6])
        if k == "n":
            return (k, f[1], tuple(map(nidx, f[2])), f[3])
        if k == "d":
            return (k, nidx(f[1]), nidx(f[2]))
        if k == "p":
            return (k, tuple((t[0], t[1], tuple(nf(g) for g in t[2])) for t in f[1]), f[2])
        if k in ("F", "Fd"):
            return (k, nidx(f[1]))
        if k == "NO":
            return (k, tuple(nf(g) for g in f[1]))
        return f
    return [(t[0], t[1], tuple(nf(g) for g in t[2])) for t in terms]


def rename_ir(terms, mapping):
    """Renames tensors in an IR (configured tensor names -> default names)."""
    def nm(x):
        for old, new in mapping:
            if x == old:
                return new
            # amplitudes / densities carry an order suffix
            if old in mapping.prefix and x.startswith(old) and (x[len(old):].replace("c", "").isdigit()):
                return new + x[len(old):]
        return x

    def nf(f):
        k = f[0]
        if k == "t":
            return (k, nm(f[1])) + tuple(f[2:])
        if k == "n":
            return (k, nm(f[1])) + tuple(f[2:])
        if k == "p":
            return (k, tuple((t[0], t[1], tuple(nf(g) for g in t[2])) for t in f[1]), f[2])
        return f
    return [(t[0], t[1], tuple(nf(g) for g in t[2])) for t in terms]


def compare_ir(irA, irB, T, model, *, val_opts=None, timeout_ms=20000, seed=0, spec_extra=None):
    """Value comparison of two IRs (e.g. shipped from other processes).  A solver model
    is replayed by evaluating both monomial lists with exact numbers."""
    out = Outcome()
    t0 = time.time()
    vars_ = Vars()
    val = FreeValuation(vars_, model, spec_from(irA, irB, extra=spec_extra), **(val_opts or {}))
    pairs = []
    for tau in model.assignments(sorted(T)):
        try:
            pairs.append((len(pairs), expr_value(irA, model, val, tau), expr_value(irB, model, val, tau)))
        except Undefined:
            continue
        out.n_monomials += len(pairs[-1][1]) + len(pairs[-1][2])
    out.encode_s = time.time() - t0
    out.n_assignments, out.n_vars = len(pairs), len(vars_)
    if not pairs:
        out.status = "skipped"
        return out
    v = check_equal(pairs, vars_, timeout_ms=timeout_ms, seed=seed)
    out.queries, out.solver_s, out.stage2 = 1, v.solver_s, int(v.stage == 2)
    if v.status == "unsat":
        out.unsat, out.status = 1, "equal"
    elif v.status == "sat":
        out.sat = 1
        num = NumericValues(vars_, v.model)
        lab = v.which if v.which is not None else 0
        try:
            va, vb = num.ml(pairs[lab][1]), num.ml(pairs[lab][2])
        except ZeroDivisionError:
            raise HarnessError("model hits a pole in the replay")
        if (va - vb).simplify() == 0:
            raise HarnessError("solver model does not reproduce (IR comparison)")
        out.status = "differ"
        out.witness = {"model_space": model.tag, "stage": v.stage, "value_A": str(va), "value_B": str(vb),
                       "tensor_values": {vars_.describe(k): str(x) for k, x in sorted(num.vals.items())
                                         if x != 0 and vars_.keys[k][0] != "I"}}
    else:
        out.unknown, out.status = 1, "unknown"
    return out
