"""
adcgen sympy tree  ->  neutral IR (plain tuples, picklable / JSON-able).

The IR only records what is *printed* on the object: class, name, the order of
the indices as stored, the bra-ket symmetry flag, exponents and numeric
prefactors.  It never calls adcgen's canonicalisation helpers.

Index    : (name, space, spin, uid)    space in 'o','v','g'; spin in '', 'a', 'b'
Factor   : ('t', name, cls, upper, lower, bks, exp)   cls: 'A' antisym, 'S' sym, 'M' amplitude
           ('n', name, idx, exp)                      NonSymmetricTensor
           ('d', i, j)                                KroneckerDelta
           ('s', name, exp)                           plain Symbol
           ('p', terms, exp)                          polynom  (sum of terms)^exp
           ('F', i) / ('Fd', i)                       annihilator / creator
           ('NO', ops)                                normal ordered group
Term     : (coef: Fraction, roots: tuple[(prime, k)], factors: tuple[Factor])
           value = coef * prod prime^(k/2) * prod factors   (k odd, may be <0)
Expr IR  : list[Term]
"""
from fractions import Fraction

from sympy import Add, Mul, Pow, Symbol, Rational, Integer, S, factorint
from sympy.physics.secondquant import F, Fd, NO

from adcgen.indices import Index
from adcgen.sympy_objects import (
    AntiSymmetricTensor, SymmetricTensor, Amplitude, NonSymmetricTensor,
    KroneckerDelta
)


class IRError(Exception):
    pass


def idx_ir(s) -> tuple:
    if not isinstance(s, Index):
        raise IRError(f"not an Index: {s!r} ({type(s)})")
    a = s.assumptions0
    if a.get("below_fermi"):
        sp = "o"
    elif a.get("above_fermi"):
        sp = "v"
    else:
        sp = "g"
    if a.get("alpha"):
        spin = "a"
    elif a.get("beta"):
        spin = "b"
    else:
        spin = ""
    return (s.name, sp, spin, s.dummy_index)


def _number(x):
    """sympy number -> (Fraction, roots dict prime->k) with value
    frac * prod p^(k/2)."""
    if x.is_Rational:
        return Fraction(int(x.p), int(x.q)), {}
    if x.is_Float:
        # python floats written in the source (e.g. 0.5): read as the exact rational
        from sympy import nsimplify
        r = nsimplify(x, rational=True)
        return Fraction(int(r.p), int(r.q)), {}
    if isinstance(x, Pow) and x.args[0].is_Rational and x.args[1].is_Rational:
        base, ex = x.args
        ex2 = ex * 2
        if not ex2.is_Integer:
            raise IRError(f"unsupported numeric power {x}")
        k = int(ex2)
        frac = Fraction(1)
        roots = {}
        for part, sgn in ((int(base.p), 1), (int(base.q), -1)):
            if part == 1:
                continue
            if part < 0:
                raise IRError(f"negative base in numeric power {x}")
            for prime, mult in factorint(part).items():
                tot = sgn * k * mult  # exponent in units of 1/2
                whole, rem = divmod(tot, 2)
                frac *= Fraction(prime) ** whole
                if rem:
                    roots[prime] = roots.get(prime, 0) + 1
        return frac, roots
    if isinstance(x, Mul):
        frac, roots = Fraction(1), {}
        for a in x.args:
            f2, r2 = _number(a)
            frac *= f2
            for p, k in r2.items():
                roots[p] = roots.get(p, 0) + k
        return frac, roots
    raise IRError(f"unsupported number {x!r}")


def _norm_roots(frac, roots):
    out = {}
    for p, k in roots.items():
        whole, rem = divmod(k, 2)
        frac *= Fraction(p) ** whole
        if rem:
            out[p] = 1
    return frac, tuple(sorted(out.items()))


def _int_exp(e):
    if not (e.is_Integer):
        raise IRError(f"non-integer exponent {e}")
    return int(e)


def factor_ir(o):
    base, exp = (o.args if isinstance(o, Pow) else (o, S.One))
    if isinstance(base, Amplitude):
        cls = "M"
    elif isinstance(base, SymmetricTensor):
        cls = "S"
    elif isinstance(base, AntiSymmetricTensor):
        cls = "A"
    else:
        cls = None
    if cls is not None:
        return ("t", base.name, cls,
                tuple(idx_ir(s) for s in base.upper),
                tuple(idx_ir(s) for s in base.lower),
                int(base.bra_ket_sym), _int_exp(exp))
    if isinstance(base, NonSymmetricTensor):
        return ("n", base.name, tuple(idx_ir(s) for s in base.indices),
                _int_exp(exp))
    if isinstance(base, KroneckerDelta):
        if exp != 1:
            raise IRError(f"delta with exponent {o}")
        i, j = base.args
        return ("d", idx_ir(i), idx_ir(j))
    if isinstance(base, Index):
        raise IRError(f"bare index as factor: {o}")
    if isinstance(base, Symbol):
        return ("s", base.name, _int_exp(exp))
    if isinstance(base, Add):
        return ("p", tuple(term_ir(t) for t in base.args), _int_exp(exp))
    if isinstance(base, Fd):
        if exp != 1:
            raise IRError(f"operator with exponent {o}")
        return ("Fd", idx_ir(base.args[0]))
    if isinstance(base, F):
        if exp != 1:
            raise IRError(f"operator with exponent {o}")
        return ("F", idx_ir(base.args[0]))
    if isinstance(base, NO):
        if exp != 1:
            raise IRError(f"NO with exponent {o}")
        inner = base.args[0]
        ops = inner.args if isinstance(inner, Mul) else (inner,)
        return ("NO", tuple(factor_ir(x) for x in ops))
    raise IRError(f"unsupported object {o!r} of type {type(o)}")


def term_ir(t):
    frac, roots, factors = Fraction(1), {}, []
    args = t.args if isinstance(t, Mul) else (t,)
    for o in args:
        if o.is_number:
            f2, r2 = _number(o)
            frac *= f2
            for p, k in r2.items():
                roots[p] = roots.get(p, 0) + k
        elif (isinstance(o, Pow) and isinstance(o.args[0], (F, Fd))
              and o.args[1].is_Integer and o.args[1] > 0):
            # a+_p a+_p is printed as a power by sympy
            factors.extend([factor_ir(o.args[0])] * int(o.args[1]))
        elif isinstance(o, Mul):  # unevaluated nested Mul
            sub = term_ir(o)
            frac *= sub[0]
            for p, k in sub[1]:
                roots[p] = roots.get(p, 0) + k
            factors.extend(sub[2])
        else:
            factors.append(factor_ir(o))
    frac, roots = _norm_roots(frac, roots)
    return (frac, roots, tuple(factors))


def expr_ir(e):
    """Accepts an adcgen container or a plain sympy object."""
    if hasattr(e, "sympy") and not hasattr(e, "is_number"):
        e = e.sympy
    elif hasattr(e, "_expr") or hasattr(e, "_sympy"):
        e = e.sympy
    if e is S.Zero or e == 0:
        return []
    terms = e.args if isinstance(e, Add) else (e,)
    return [term_ir(t) for t in terms]


# ----------------------------------------------------------------------------
# helpers on the IR
# ----------------------------------------------------------------------------

def factor_indices(f):
    """All index occurrences of a factor (with multiplicity |exp| like the
    Einstein counting of the library's documentation)."""
    k = f[0]
    if k == "t":
        return list(f[3] + f[4]) * abs(f[6])
    if k == "n":
        return list(f[2]) * abs(f[3])
    if k == "d":
        return [f[1], f[2]]
    if k == "s":
        return []
    if k == "p":
        out = []
        for t in f[1]:
            out.extend(term_indices(t))
        return out * abs(f[2])
    if k in ("F", "Fd"):
        return [f[1]]
    if k == "NO":
        return [o[1] for o in f[1]]
    raise IRError(k)


def term_indices(term):
    out = []
    for f in term[2]:
        out.extend(factor_indices(f))
    return out


def term_index_set(term):
    return set(term_indices(term))


def einstein_target(term):
    """Indices that occur exactly once in the term (summation convention)."""
    cnt = {}
    for s in term_indices(term):
        cnt[s] = cnt.get(s, 0) + 1
    return {s for s, n in cnt.items() if n == 1}


def expr_indices(terms):
    out = set()
    for t in terms:
        out |= term_index_set(t)
    return out


def tensor_signatures(terms, acc=None):
    """{(name, n_upper, n_lower): set of (cls, bks)}, nonsym: {(name, n): {('N',0)}}"""
    if acc is None:
        acc = {}

    def visit(f):
        k = f[0]
        if k == "t":
            acc.setdefault((f[1], len(f[3]), len(f[4])), set()).add((f[2], f[5]))
        elif k == "n":
            acc.setdefault((f[1], len(f[2]), -1), set()).add(("N", 0))
        elif k == "p":
            for t in f[1]:
                for g in t[2]:
                    visit(g)
    for t in terms:
        for f in t[2]:
            visit(f)
    return acc


def idx_str(s):
    n = s[0] + ("_" + s[2] if s[2] else "")
    return n


def factor_str(f):
    k = f[0]
    if k == "t":
        e = f"^{f[6]}" if f[6] != 1 else ""
        return (f"{f[1]}[{f[2]}{f[5]:+d}]^({','.join(map(idx_str, f[3]))})"
                f"_({','.join(map(idx_str, f[4]))}){e}")
    if k == "n":
        e = f"^{f[3]}" if f[3] != 1 else ""
        return f"{f[1]}_({','.join(map(idx_str, f[2]))}){e}"
    if k == "d":
        return f"delta({idx_str(f[1])},{idx_str(f[2])})"
    if k == "s":
        return f"{f[1]}^{f[2]}" if f[2] != 1 else f[1]
    if k == "p":
        return "(" + " + ".join(term_str(t) for t in f[1]) + f")^{f[2]}"
    if k in ("F", "Fd"):
        return f"{k}({idx_str(f[1])})"
    if k == "NO":
        return "NO{" + " ".join(factor_str(o) for o in f[1]) + "}"
    return str(f)


def term_str(t):
    parts = [str(t[0])]
    parts += [f"sqrt({p})" for p, _ in t[1]]
    parts += [factor_str(f) for f in t[2]]
    return "*".join(parts)


def expr_str(terms, maxlen=2000):
    s = " + ".join(term_str(t) for t in terms) if terms else "0"
    return s if len(s) <= maxlen else s[:maxlen] + f"...[{len(terms)} terms]"
