"""
Seeded, bounded generators of adcgen expressions (the *shapes* that are
enumerated; everything else in a query is symbolic).
"""
import random
from fractions import Fraction

from sympy import Rational, S, sqrt, Mul, Add, Pow, Symbol

from adcgen.indices import get_symbols
from adcgen.sympy_objects import (
    AntiSymmetricTensor, SymmetricTensor, Amplitude, NonSymmetricTensor,
    KroneckerDelta
)

POOL = {
    "o": ["i", "j", "k", "l", "m", "n", "i1", "j2", "k10"],
    "v": ["a", "b", "c", "d", "e", "f", "a1", "b2", "c10"],
    "g": ["p", "q", "r", "s", "t", "u", "p1", "q2"],
}

# name, class, (n_upper, n_lower), allowed bra-ket syms, slot spaces
#   slot spaces: string over o/v/g/* per slot (upper then lower); '*' = any
PALETTE = [
    ("V", "A", (2, 2), (0,), "****"),
    ("f", "A", (1, 1), (0,), "**"),
    ("d", "A", (1, 1), (0, 1, -1), "**"),
    ("d", "A", (2, 2), (0, 1, -1), "****"),
    ("t1", "M", (2, 2), (0,), "vvoo"),
    ("t2", "M", (1, 1), (0,), "vo"),
    ("t2", "M", (2, 2), (0,), "vvoo"),
    ("t1cc", "M", (2, 2), (0,), "vvoo"),
    ("Y", "M", (1, 1), (0,), "vo"),
    ("Y", "M", (2, 2), (0,), "vvoo"),
    ("X", "M", (1, 1), (0,), "vo"),
    ("X", "M", (2, 1), (0,), "vvo"),
    ("g", "A", (2, 1), (0,), "***"),
    ("w", "S", (2, 2), (0, 1), "****"),
    ("v", "S", (2, 2), (1,), "****"),
    ("b", "N", (3,), (0,), "***"),
    ("c", "N", (2,), (0,), "**"),
    ("d0", "A", (1, 1), (0,), "**"),
    ("d0", "A", (2, 2), (0,), "****"),
    ("D", "S", (2, 2), (-1,), "vvoo"),
    ("D", "S", (1, 1), (-1,), "vo"),
]


def make_tensor(name, cls, shape, bks, idx):
    if cls == "K":
        return KroneckerDelta(idx[0], idx[1])
    if cls == "N":
        return NonSymmetricTensor(name, tuple(idx))
    nu = shape[0]
    up, lo = tuple(idx[:nu]), tuple(idx[nu:])
    C = {"A": AntiSymmetricTensor, "S": SymmetricTensor, "M": Amplitude}[cls]
    return C(name, up, lo, bks)


class TermGen:
    """
    Random products of palette tensors.

    opts:
      n_tensors      (lo, hi)
      spaces         string of allowed spaces for '*' slots, e.g. "ov" or "ovg"
      spin           False | True (spin labelled indices, all indices carry a spin) | 'mixed'
      names          subset of palette names (None = all)
      max_contracted maximal number of distinct non-target indices
      max_target     maximal number of target indices
      deltas         (lo, hi) number of Kronecker deltas
      exponents      probability of squaring a tensor
      prefactors     True: random rational / sqrt prefactors
      symbols        probability of a plain Symbol factor
      pool_size      number of index names per space to draw from
    """

    def __init__(self, rng: random.Random, **opts):
        self.rng = rng
        self.o = dict(n_tensors=(2, 3), spaces="ov", spin=False, names=None,
                      max_contracted=6, max_target=4, deltas=(0, 0),
                      exponents=0.0, prefactors=True, symbols=0.0, pool_size=5,
                      exclude=("D", "v", "d0"))
        self.o.update(opts)

    def _palette(self):
        names, excl = self.o["names"], self.o["exclude"]
        pal = [p for p in PALETTE
               if (names is None or p[0] in names)
               and (names is not None or p[0] not in excl)]
        return pal

    def _index(self, space, spin):
        name = self.rng.choice(POOL[space][:self.o["pool_size"]])
        if spin:
            return get_symbols(name, spin)[0]
        return get_symbols(name)[0]

    def _spin(self):
        s = self.o["spin"]
        if not s:
            return ""
        if s == "mixed":
            return self.rng.choice(["", "a", "b"])
        return self.rng.choice(["a", "b"])

    def term(self, tries=200):
        rng = self.rng
        pal = self._palette()
        for _ in range(tries):
            n = rng.randint(*self.o["n_tensors"])
            objs = []
            for _ in range(n):
                name, cls, shape, bkss, slots = rng.choice(pal)
                bks = rng.choice(bkss)
                idx = []
                for ch in slots:
                    sp = rng.choice(self.o["spaces"]) if ch == "*" else ch
                    idx.append(self._index(sp, self._spin()))
                t = make_tensor(name, cls, shape, bks, idx)
                if rng.random() < self.o["exponents"]:
                    t = t ** 2
                objs.append(t)
            for _ in range(rng.randint(*self.o["deltas"])):
                sp = rng.choice(self.o["spaces"])
                sp2 = rng.choice([sp, sp, "g"]) if "g" in self.o["spaces"] else sp
                objs.append(KroneckerDelta(self._index(sp, self._spin()),
                                           self._index(sp2, self._spin())))
            if rng.random() < self.o["symbols"]:
                objs.append(Symbol(rng.choice(["x", "y"])))
            term = Mul(*objs)
            if term is S.Zero or term.is_number:
                continue
            # a bra-ket-symmetry conflict inside one term makes the term unusable
            if self.o["prefactors"]:
                term = term * rng.choice([1, 1, -1, 2, Rational(1, 2), Rational(-1, 4),
                                          Rational(3, 8), sqrt(2), 1 / sqrt(2),
                                          sqrt(6) / 3])
            from .ir import term_ir, term_indices
            tir = term_ir(term)
            cnt = {}
            for s in term_indices(tir):
                cnt[s] = cnt.get(s, 0) + 1
            n_target = sum(1 for c in cnt.values() if c == 1)
            n_contr = len(cnt) - n_target
            if n_target > self.o["max_target"] or n_contr > self.o["max_contracted"]:
                continue
            return term
        raise RuntimeError("could not generate a term within the bounds")


    # -- constructive variant: a term with exactly the given target indices ------
    def term_with_target(self, target, tries=300, repeat_target=0.0):
        """
        target: list of Index objects.  Every target index is placed on exactly
        one slot (or two, with probability repeat_target - then the expression
        needs explicit target indices); all other slots are paired into
        contracted indices of equal space and spin.
        """
        rng = self.rng
        pal = self._palette()
        tnames = {(s.name, s.spin) for s in target}
        for _ in range(tries):
            n = rng.randint(*self.o["n_tensors"])
            chosen = [rng.choice(pal) for _ in range(n)]
            # Kronecker deltas take part in the slot pairing like two-index tensors
            # ("=": the space and spin of the preceding slot)
            chosen += [("delta", "K", (1, 1), (0,), "*=")] * rng.randint(*self.o["deltas"])
            slots = []  # [tensor number, slot number, space, spin, index]
            for ti, (name, cls, shape, bkss, sl) in enumerate(chosen):
                for si, ch in enumerate(sl):
                    if ch == "=":
                        slots.append([ti, si, slots[-1][2], slots[-1][3], None, "*"])
                        continue
                    sp = rng.choice(self.o["spaces"]) if ch == "*" else ch
                    slots.append([ti, si, sp, self._spin(), None, ch])
            free = list(range(len(slots)))
            rng.shuffle(free)
            ok = True
            for s in target:
                reps = 2 if rng.random() < repeat_target else 1
                for _ in range(reps):
                    cand = [k for k in free
                            if (slots[k][5] == "*" or slots[k][2] == s.space[0])]
                    if not cand:
                        ok = False
                        break
                    k = cand[0]
                    free.remove(k)
                    slots[k][2], slots[k][3], slots[k][4] = s.space[0], s.spin, s
                if not ok:
                    break
            if not ok:
                continue
            groups = {}
            for k in free:
                groups.setdefault((slots[k][2], slots[k][3]), []).append(k)
            if any(len(g) % 2 for g in groups.values()):
                continue
            n_contr = sum(len(g) // 2 for g in groups.values())
            if n_contr > self.o["max_contracted"]:
                continue
            for (sp, spin), g in groups.items():
                names = [x for x in POOL[sp] if (x, spin) not in tnames]
                rng.shuffle(g)
                picked = rng.sample(names, len(g) // 2)
                for q, nm in enumerate(picked):
                    s = get_symbols(nm, spin)[0] if spin else get_symbols(nm)[0]
                    slots[g[2 * q]][4] = s
                    slots[g[2 * q + 1]][4] = s
            objs = []
            for ti, (name, cls, shape, bkss, sl) in enumerate(chosen):
                idx = [sl_[4] for sl_ in slots if sl_[0] == ti]
                t = make_tensor(name, cls, shape, rng.choice(bkss), idx)
                objs.append(t)
            term = Mul(*objs)
            if term is S.Zero or term.is_number:
                continue
            if self.o["prefactors"]:
                term = term * rng.choice([1, 1, -1, 2, Rational(1, 2), Rational(-1, 4),
                                          Rational(3, 8), sqrt(2), 1 / sqrt(2)])
            return term
        raise RuntimeError("could not generate a term with the requested target")


def consistent_bks(expr):
    """True if no tensor name occurs with conflicting declarations."""
    from .ir import expr_ir
    from .poly import spec_from, Unsupported
    try:
        spec_from(expr_ir(expr))
        return True
    except Unsupported:
        return False
