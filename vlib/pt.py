"""
Reference perturbation theory in determinant space (E2), with the wavefunction
corrections *parametrised* by free amplitude unknowns in adcgen's documented
convention:

  |psi^(m)> = sum_level  s_level  sum_{i<j<.., a<b<..} t^(m)[ab..|ij..]
              a+_a a+_b .. a_j a_i |Phi>,        s_doubles = -1, else +1
  <psi^(m)| : the adjoint with the independent unknowns  t<m>cc

All quantities are polynomials (poly.SP) in the tensor unknowns of a valuation,
so a comparison with adcgen's expression is a polynomial identity for z3.
"""
from fractions import Fraction
from itertools import combinations

from .poly import SP, ml_combine
from . import detref
from .detref import Vec, Hamiltonian, CRE, ANN, apply_string


class PT:
    def __init__(self, model, val, variant="mp", singles=False, fock="f", eri="V",
                 amp="t", orb_energy="e", canonical=False, explicit=False):
        """
        canonical=True : f_pq = delta_pq e_p  (needed for the closed-form MP
                         amplitudes, whose denominators are orbital energies)
        """
        if model.spin:
            raise ValueError("PT reference works on spin orbitals without labels")
        self.m, self.val = model, val
        self.n_o, self.n = model.n_o, len(model.orbs)
        self.variant, self.singles = variant, singles
        self.fock, self.eri, self.amp, self.orb_energy = fock, eri, amp, orb_energy
        self.canonical = canonical
        # explicit=True: the wavefunction corrections are not parametrised but built
        # recursively from the closed-form MP amplitudes (integrals and energies only)
        self.explicit = explicit
        self.ref = detref.reference_det(self.n_o)
        self._psi = {}
        self._energy = {}
        self._h = {}

    # -- integrals ---------------------------------------------------------------
    def f(self, p, q):
        if self.canonical:
            if p != q:
                return SP()
            return SP.from_ml(self.val.nonsym(self.orb_energy, (p,)))
        return SP.from_ml(self.val.tensor(self.fock, "A", (p,), (q,), 0))

    def v(self, p, q, r, s):
        return SP.from_ml(self.val.tensor(self.eri, "A", (p, q), (r, s), 0))

    def h_core(self, p, q):
        """f_pq - sum_i <pi||qi>"""
        tot = self.f(p, q)
        for i in range(self.n_o):
            tot = tot - self.v(p, i, q, i)
        return tot

    def _occ(self, p):
        return p < self.n_o

    def hamiltonian(self, part):
        """part: 'h0' | 'h1' | 'full' for the chosen partitioning."""
        key = part
        if key in self._h:
            return self._h[key]
        n_o = self.n_o
        if part == "full":
            one = self.h_core
            two = self.v
        elif self.variant == "mp":
            if part == "h0":
                one, two = self.f, None
            else:
                def one(p, q):
                    tot = SP()
                    for i in range(n_o):
                        tot = tot - self.v(p, i, q, i)
                    return tot
                two = self.v
        elif self.variant == "re":
            # H0: everything that conserves the excitation level: f_oo, f_vv and
            # the <oo||oo>, <ov||ov>, <vv||vv> blocks (incl. the one-particle part)
            def same(p, q):
                return self._occ(p) == self._occ(q)

            def nocc(*x):
                return sum(1 for y in x if self._occ(y))
            if part == "h0":
                def one(p, q):
                    return self.h_core(p, q) if same(p, q) else SP()

                def two(p, q, r, s):
                    return self.v(p, q, r, s) if nocc(p, q) == nocc(r, s) else SP()
            else:
                def one(p, q):
                    return SP() if same(p, q) else self.h_core(p, q)

                def two(p, q, r, s):
                    return SP() if nocc(p, q) == nocc(r, s) else self.v(p, q, r, s)
        else:
            raise ValueError(self.variant)
        h = Hamiltonian(self.n, one, two)
        self._h[key] = h
        return h

    # -- parametrised wavefunctions ---------------------------------------------------
    def levels(self, order):
        if order == 0:
            return []
        lv = list(range(1, 2 * order + 1))
        if order == 1 and not self.singles:
            lv.remove(1)
        return [k for k in lv if k <= min(self.n_o, self.n - self.n_o)]

    def psi(self, order, bra=False):
        """Vec of |psi^(order)> (or the coefficient vector of the bra)."""
        key = (order, bra)
        if key in self._psi:
            return self._psi[key]
        v = Vec()
        if order == 0:
            v.add(self.ref, SP.const(1))
        else:
            name = f"{self.amp}{order}" + ("cc" if bra else "")
            occs, virts = range(self.n_o), range(self.n_o, self.n)
            for k in self.levels(order):
                sgn = -1 if k == 2 else 1
                for I in combinations(occs, k):
                    for A in combinations(virts, k):
                        ops = [(CRE, a) for a in A] + [(ANN, i) for i in reversed(I)]
                        r = apply_string(ops, self.ref)
                        if self.explicit:
                            t = self.mp_amplitude(order, tuple(I), tuple(A))
                        else:
                            t = SP.from_ml(self.val.tensor(name, "M", tuple(A), tuple(I), 0))
                        v.add(r[1], t * (sgn * r[0]))
        self._psi[key] = v
        return v

    # -- energies --------------------------------------------------------------------
    def energy(self, order):
        if order in self._energy:
            return self._energy[order]
        ref = Vec({self.ref: SP.const(1)})
        if order == 0:
            e = ref.dot(self.hamiltonian("h0").apply(ref))
        else:
            e = ref.dot(self.hamiltonian("h1").apply(self.psi(order - 1)))
        self._energy[order] = e
        return e

    # -- projections -------------------------------------------------------------------
    def project(self, vec, occ, virt):
        """<Phi| a+_i a+_j .. a_b a_a |vec>  for occ=(i,j,..), virt=(a,b,..)
        (adcgen's bra: creation=occ, annihilation=virt reversed)."""
        ops = [(CRE, i) for i in occ] + [(ANN, a) for a in reversed(virt)]
        tot = SP()
        for det, c in vec.c.items():
            r = apply_string(ops, det)
            if r is not None and r[1] == self.ref:
                tot = tot + c * r[0]
        return tot

    def rhs(self, order):
        """H1 psi^(n-1) - sum_{k=1}^{n-1} E^(k) psi^(n-k)"""
        v = self.hamiltonian("h1").apply(self.psi(order - 1))
        for k in range(1, order):
            v = v - self.psi(order - k).scale(self.energy(k))
        return v

    def mp_amplitude(self, order, occ, virt):
        """closed-form MP amplitude t^(n)[virt|occ] from the explicit first-order
        equation  psi^(n) = R0 (H1 psi^(n-1) - sum E^(k) psi^(n-k)),
        R0 = sum_D |D><D| / (E0 - E_D),  canonical orbitals."""
        if not self.canonical:
            raise ValueError("closed-form MP amplitudes need canonical=True")
        k = len(occ)
        sgn = -1 if k == 2 else 1
        num = self.project(self.rhs(order), occ, virt)
        if num.is_zero():
            return SP()
        form = [(Fraction(1), (self.val.vars.get(("N", self.orb_energy, (i,))),)) for i in occ]
        form += [(Fraction(-1), (self.val.vars.get(("N", self.orb_energy, (a,))),)) for a in virt]
        inv = SP.from_ml(self.val.inverse_of(form, 1))
        return num * inv * sgn

    def residual(self, order, occ, virt):
        """<Phi_k| (H0 - E0) psi^(n) + (H1 - E1) psi^(n-1) - sum_{m>=2} E^(m) psi^(n-m) >"""
        v = self.hamiltonian("h0").apply(self.psi(order))
        v = v - self.psi(order).scale(self.energy(0))
        if order >= 1:
            v = v + self.hamiltonian("h1").apply(self.psi(order - 1))
            v = v - self.psi(order - 1).scale(self.energy(1))
        for m in range(2, order + 1):
            v = v - self.psi(order - m).scale(self.energy(m))
        return self.project(v, occ, virt)

    # -- expectation values --------------------------------------------------------------
    def operator(self, name, n_particles):
        val = self.val
        if n_particles == 1:
            def one(p, q):
                return SP.from_ml(val.tensor(name, "A", (p,), (q,), 0))
            return Hamiltonian(self.n, one, None)
        if n_particles == 2:
            def two(p, q, r, s):
                return SP.from_ml(val.tensor(name, "A", (p, q), (r, s), 0))
            return Hamiltonian(self.n, None, two)
        raise ValueError("operator rank")

    def density(self, order, p, q):
        """order-n coefficient of <Psi| a+_p a_q |Psi> / <Psi|Psi>"""
        def one(x, y):
            return SP.const(1) if (x, y) == (p, q) else SP()
        op = Hamiltonian(self.n, one, None)
        return self._expec_series(order, op)[order]

    def _expec_series(self, order, op):
        N, S = [], []
        for n in range(order + 1):
            num, ovl = SP(), SP()
            for a in range(n + 1):
                b = n - a
                bra = self.psi(a, bra=True)
                num = num + bra.dot(op.apply(self.psi(b)))
                ovl = ovl + bra.dot(self.psi(b))
            N.append(num)
            S.append(ovl)
        R = []
        for n in range(order + 1):
            r = N[n]
            for k in range(1, n + 1):
                r = r - S[k] * R[n - k]
            R.append(r)
        return R

    def expectation_value(self, order, name, n_particles):
        """order-n coefficient of <Psi|D|Psi>/<Psi|Psi>, Psi = sum lambda^m psi^(m)."""
        op = self.operator(name, n_particles)
        N, S = [], []
        for n in range(order + 1):
            num, ovl = SP(), SP()
            for a in range(n + 1):
                b = n - a
                bra = self.psi(a, bra=True)
                num = num + bra.dot(op.apply(self.psi(b)))
                ovl = ovl + bra.dot(self.psi(b))
            N.append(num)
            S.append(ovl)
        R = []
        for n in range(order + 1):
            r = N[n]
            for k in range(1, n + 1):
                r = r - S[k] * R[n - k]
            R.append(r)
        return R[order]
