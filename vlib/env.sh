#!/bin/bash
# Idempotent bootstrap of the overlay venv used by every check.
# /venv (python 3.12, adcgen deps) is left untouched; /verif/.venv sees its
# site-packages through a .pth file and adds z3 / cvc5 / crosshair from the
# offline wheelhouse.  adcgen itself is imported from /repo's working tree.
set -e
V=/verif/.venv
STAMP=$V/.ok
if [ -f "$STAMP" ]; then exit 0; fi
exec 9>/verif/.venv.lock
flock 9
if [ -f "$STAMP" ]; then exit 0; fi
rm -rf "$V"
/venv/bin/python -m venv "$V"
SP=$("$V/bin/python" -c 'import sysconfig;print(sysconfig.get_paths()["purelib"])')
printf '/venv/lib/python3.12/site-packages\n/repo\n' > "$SP/verif_overlay.pth"
PIP_NO_INDEX=1 "$V/bin/pip" install -q --no-index --find-links /opt/veriftools/wheels \
    z3-solver cvc5 crosshair-tool >/dev/null
"$V/bin/python" -c 'import z3, crosshair, adcgen, sympy; print("verif venv ok: z3", z3.get_version_string(), "sympy", sympy.__version__)'
touch "$STAMP"
