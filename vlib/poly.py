"""
IR x model x valuation  ->  un-normalised polynomial (list of monomials).

A *monomial list* is a list of (Fraction, tuple_of_var_ids).  Nothing in here
combines or cancels monomials across terms: the algebra is left to the solver
(see smt.py).  Contracted indices are expanded into explicit finite sums with
pruning on vanishing factors.

Variables (Vars registry), by key:
  ('T', name, nu, nl, U, L)   entry of a 2-part tensor at canonical (U | L)
  ('N', name, orbs)           entry of a non-symmetric tensor
  ('Y', name)                 plain symbol
  ('R', prime)                sqrt(prime)         constraint  r*r = prime, r > 0
  ('I', form)                 1 / polynomial      form = tuple of (monomial, int coef), primitive,
                              first coefficient positive;  constraint  inv * form = 1
"""
from fractions import Fraction
from math import gcd

from .model import canon_entry
from . import ir as IR


class Undefined(Exception):
    """The expression has no value at this assignment (vanishing denominator)."""


class Unsupported(Exception):
    pass


class Vars:
    def __init__(self):
        self.ids = {}
        self.keys = []

    def get(self, key) -> int:
        i = self.ids.get(key)
        if i is None:
            i = len(self.keys)
            self.ids[key] = i
            self.keys.append(key)
        return i

    def kind(self, i):
        return self.keys[i][0]

    def name(self, i):
        return f"x{i}"

    def describe(self, i):
        k = self.keys[i]
        if k[0] == "T":
            return f"{k[1]}[{','.join(map(str, k[4]))}|{','.join(map(str, k[5]))}]"
        if k[0] == "N":
            return f"{k[1]}[{','.join(map(str, k[2]))}]"
        if k[0] == "Y":
            return k[1]
        if k[0] == "R":
            return f"sqrt({k[1]})"
        if k[0] == "I":
            return "1/(" + " ".join(f"{c:+d}*" + "*".join(self.describe(v) for v in m)
                                    for m, c in k[1]) + ")"
        return str(k)

    def __len__(self):
        return len(self.keys)


# -----------------------------------------------------------------------------
# monomial-list helpers
# -----------------------------------------------------------------------------
ONE = [(Fraction(1), ())]


def ml_mul(a, b):
    if len(a) == 1 and len(b) == 1:
        return [(a[0][0] * b[0][0], a[0][1] + b[0][1])]
    return [(ca * cb, ma + mb) for ca, ma in a for cb, mb in b]


def ml_pow(a, n):
    out = ONE
    for _ in range(n):
        out = ml_mul(out, a)
    return out


def ml_scale(a, c):
    return [(c * ca, ma) for ca, ma in a]


def ml_combine(a):
    """Combine like monomials (used only where stated: linear forms, replay)."""
    acc = {}
    for c, m in a:
        m = tuple(sorted(m))
        v = acc.get(m, 0) + c
        acc[m] = v
    return {m: c for m, c in acc.items() if c != 0}


# -----------------------------------------------------------------------------
# valuations
# -----------------------------------------------------------------------------
class FreeValuation:
    """
    Every tensor name: independent symbolic entries with its declared symmetry.

    spec : {(name, nu, nl): (kind, bks)}   for 2-part tensors;  kind 'A' / 'S'
    Built with `spec_from` from all expressions taking part in one query, so
    that both sides read the same unknowns.
    Options
      explicit_D  : name of the symbolic-denominator tensor whose entries are
                    1/(sum e_upper - sum e_lower) instead of free unknowns
      orb_energy  : name of the orbital-energy tensor (for explicit_D / hf)
      diag_fock   : name of the Fock tensor valued as delta_pq e_p
      zero_blocks : {name: predicate(model, U, L) -> True if the entry vanishes}
      alias       : {name: name}   identify tensor names (e.g. t1cc -> t1)
    """

    def __init__(self, vars_: Vars, model, spec, explicit_D=None,
                 orb_energy="e", diag_fock=None, zero_blocks=None, alias=None,
                 overrides=None, symbol_overrides=None):
        self.vars, self.model, self.spec = vars_, model, spec
        self.explicit_D, self.orb_energy = explicit_D, orb_energy
        self.diag_fock = diag_fock
        self.zero_blocks = zero_blocks or {}
        self.alias = alias or {}
        # overrides: {name: fn(valuation, name, cls, U, L, bks) -> monomial list or None}
        self.overrides = overrides or {}
        # symbol_overrides: {symbol name: fn(valuation) -> monomial list}
        self.symbol_overrides = symbol_overrides or {}
        self._cache = {}

    # -- linear forms / inverses ------------------------------------------------
    def inverse_of(self, ml, power):
        """monomial list of (polynomial)^(-power), power > 0.  The polynomial is
        reduced to primitive integer form (content and sign pulled out)."""
        comb = ml_combine(ml)
        if not comb:
            raise Undefined("vanishing denominator")
        if () in comb and len(comb) == 1:
            return [(Fraction(1) / comb[()] ** power, ())]
        den = 1
        for c in comb.values():
            den = den * c.denominator // gcd(den, c.denominator)
        ints = {m: int(c * den) for m, c in comb.items()}
        g = 0
        for c in ints.values():
            g = gcd(g, abs(c))
        items = sorted(ints.items())
        sgn = 1 if items[0][1] > 0 else -1
        prim = tuple((m, sgn * c // g) for m, c in items)
        scale = Fraction(sgn * g, den)   # polynomial = scale * prim
        inv = self.vars.get(("I", prim))
        return [(Fraction(1) / scale ** power, (inv,) * power)]

    # -- entries ------------------------------------------------------------------
    def tensor(self, name, cls, U, L, bks_obj):
        key = (name, U, L)
        hit = self._cache.get(key)
        if hit is not None:
            return hit
        val = self._tensor(name, cls, U, L, bks_obj)
        self._cache[key] = val
        return val

    def _tensor(self, name, cls, U, L, bks_obj):
        name = self.alias.get(name, name)
        ov = self.overrides.get(name)
        if ov is not None:
            r = ov(self, name, cls, U, L, bks_obj)
            if r is not None:
                return r
        kind, bks = self.spec.get((name, len(U), len(L)),
                                  ("S" if cls == "S" else "A", bks_obj))
        sign, can = canon_entry(kind, U, L, bks)
        if sign == 0:
            return []
        U2, L2 = can
        zb = self.zero_blocks.get(name)
        if zb is not None and zb(self.model, U2, L2):
            return []
        if name == self.explicit_D:
            form = [(Fraction(1), (self.vars.get(("N", self.orb_energy, (o,))),))
                    for o in U2]
            form += [(Fraction(-1), (self.vars.get(("N", self.orb_energy, (o,))),))
                     for o in L2]
            return ml_scale(self.inverse_of(form, 1), Fraction(sign))
        if name == self.diag_fock and len(U2) == 1 and len(L2) == 1:
            if U2[0] != L2[0]:
                return []
            return [(Fraction(sign),
                     (self.vars.get(("N", self.orb_energy, (U2[0],))),))]
        v = self.vars.get(("T", name, len(U2), len(L2), U2, L2))
        return [(Fraction(sign), (v,))]

    def nonsym(self, name, orbs):
        name = self.alias.get(name, name)
        ov = self.overrides.get(name)
        if ov is not None:
            r = ov(self, name, "N", orbs, None, 0)
            if r is not None:
                return r
        return [(Fraction(1), (self.vars.get(("N", name, tuple(orbs))),))]

    def symbol(self, name):
        ov = self.symbol_overrides.get(name)
        if ov is not None:
            return ov(self)
        return [(Fraction(1), (self.vars.get(("Y", name)),))]

    def root(self, prime):
        return [(Fraction(1), (self.vars.get(("R", prime)),))]


def spec_from(*irs, extra=None):
    """
    Symmetry per tensor name = what is declared on the objects of all given
    expressions.  A name that occurs with and without bra-ket symmetry gets the
    symmetry (the query is about models satisfying the declared assumption).
    Conflicting declarations (A vs S, +1 vs -1) raise.
    """
    sigs = {}
    for e in irs:
        IR.tensor_signatures(e, sigs)
    spec = {}
    for key, decls in sigs.items():
        if key[2] == -1:
            continue
        kinds = {"S" if c == "S" else "A" for c, _ in decls}
        if len(kinds) > 1:
            raise Unsupported(f"tensor {key} occurs as symmetric and antisymmetric")
        bset = {b for _, b in decls if b}
        if len(bset) > 1:
            raise Unsupported(f"tensor {key} occurs with bra-ket sym +1 and -1")
        spec[key] = (kinds.pop(), bset.pop() if bset else 0)
    if extra:
        spec.update(extra)
    return spec


# -----------------------------------------------------------------------------
# evaluation of a term / expression
# -----------------------------------------------------------------------------
def _factor_value(f, asg, val):
    k = f[0]
    if k == "t":
        U = tuple(asg[s] for s in f[3])
        L = tuple(asg[s] for s in f[4])
        v = val.tensor(f[1], f[2], U, L, f[5])
        e = f[6]
    elif k == "n":
        v = val.nonsym(f[1], tuple(asg[s] for s in f[2]))
        e = f[3]
    elif k == "d":
        return ONE if asg[f[1]] == asg[f[2]] else []
    elif k == "s":
        v, e = val.symbol(f[1]), f[2]
    elif k == "p":
        v = []
        for t in f[1]:
            v.extend(_term_value_assigned(t, asg, val))
        e = f[2]
    else:
        raise Unsupported(f"operator factor {k} in a value expression")
    if e == 1:
        return v
    if e > 1:
        return ml_pow(v, e)
    if e < 0:
        return val.inverse_of(v, -e)
    return ONE


def _term_value_assigned(term, asg, val):
    """Value of a term whose indices are all assigned."""
    out = [(term[0], ())]
    for p, _ in term[1]:
        out = ml_mul(out, val.root(p))
    for f in term[2]:
        v = _factor_value(f, asg, val)
        if not v:
            return []
        out = ml_mul(out, v)
    return out


def _plan(term, fixed):
    """Order of the contracted indices and, per depth, the factors that become
    fully assigned."""
    factors = term[2]
    fidx = [set(IR.factor_indices(f)) for f in factors]
    contracted = []
    seen = set(fixed)
    # tensors with many indices first: they prune best
    order = sorted(range(len(factors)),
                   key=lambda i: (factors[i][0] == "p", -len(fidx[i])))
    for i in order:
        for s in sorted(fidx[i]):
            if s not in seen:
                seen.add(s)
                contracted.append(s)
    ready = [[] for _ in range(len(contracted) + 1)]
    pos = {s: d + 1 for d, s in enumerate(contracted)}
    for i, idxs in enumerate(fidx):
        depth = max((pos.get(s, 0) for s in idxs), default=0)
        ready[depth].append(i)
    return contracted, ready


def term_value(term, model, val, target_asg):
    """
    Sum over all indices of the term that are not fixed by target_asg.
    Returns a monomial list (not combined).
    """
    contracted, ready = _plan(term, target_asg.keys())
    ranges = [model.idx_range(s) for s in contracted]
    factors = term[2]
    asg = dict(target_asg)
    out = []
    base = [(term[0], ())]
    for p, _ in term[1]:
        base = ml_mul(base, val.root(p))

    def rec(depth, acc):
        for i in ready[depth]:
            v = _factor_value(factors[i], asg, val)
            if not v:
                return
            acc = ml_mul(acc, v)
        if depth == len(contracted):
            out.extend(acc)
            return
        s = contracted[depth]
        for o in ranges[depth]:
            asg[s] = o
            rec(depth + 1, acc)
        del asg[s]

    rec(0, base)
    return out


def expr_value(terms, model, val, target_asg):
    out = []
    for t in terms:
        out.extend(term_value(t, model, val, target_asg))
    return out


# -----------------------------------------------------------------------------
# sparse polynomials (normalised) - used by the *reference* side (detref) only
# -----------------------------------------------------------------------------
class SP:
    """Sparse polynomial {sorted monomial tuple: Fraction}."""
    __slots__ = ("d",)

    def __init__(self, d=None):
        self.d = d if d is not None else {}

    @staticmethod
    def const(c):
        c = Fraction(c)
        return SP({(): c}) if c else SP()

    @staticmethod
    def from_ml(ml):
        return SP(ml_combine(ml))

    def to_ml(self):
        return [(c, m) for m, c in self.d.items()]

    def is_zero(self):
        return not self.d

    def __add__(self, o):
        if not isinstance(o, SP):
            o = SP.const(o)
        if len(self.d) < len(o.d):
            self, o = o, self
        d = dict(self.d)
        for m, c in o.d.items():
            v = d.get(m, 0) + c
            if v:
                d[m] = v
            else:
                d.pop(m, None)
        return SP(d)

    __radd__ = __add__

    def __neg__(self):
        return SP({m: -c for m, c in self.d.items()})

    def __sub__(self, o):
        if not isinstance(o, SP):
            o = SP.const(o)
        return self + (-o)

    def __rsub__(self, o):
        return (-self) + o

    def __mul__(self, o):
        if not isinstance(o, SP):
            o = Fraction(o)
            if not o:
                return SP()
            return SP({m: c * o for m, c in self.d.items()})
        if not self.d or not o.d:
            return SP()
        d = {}
        for m1, c1 in self.d.items():
            for m2, c2 in o.d.items():
                m = tuple(sorted(m1 + m2)) if (m1 and m2) else (m1 or m2)
                v = d.get(m, 0) + c1 * c2
                if v:
                    d[m] = v
                else:
                    d.pop(m, None)
        return SP(d)

    __rmul__ = __mul__

    def __repr__(self):
        return f"SP({len(self.d)} monomials)"
