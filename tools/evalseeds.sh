#!/bin/bash
# tools/evalseeds.sh [tier]: official evaluation of every stored seeded change: apply the patch to
# /repo, run the check of the property it breaks, undo the patch straight afterwards.
cd "$(dirname "$0")/.."
tier=${1:-quick}
for d in seeded/C*/; do
  id=$(basename $d); prop=${id:0:3}
  echo "== $id"
  ./tools/tryseed.sh "$PWD/${d}patch.diff" $tier $prop 2>&1 | grep -v "^KNOWN" | cut -c1-220 | head -4
done
git -C /repo status --short | head -3
