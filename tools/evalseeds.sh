#!/bin/bash
# tools/evalseeds.sh [tier] [ids...]: official evaluation of stored seeded changes: apply the patch
# to /repo, run the check of the property it breaks (or the checks named in meta.json
# "detect_with"), undo the patch straight afterwards.
cd "$(dirname "$0")/.."
tier=${1:-quick}; shift
ids=${@:-$(ls -d seeded/C*/ | xargs -n1 basename)}
for id in $ids; do
  d=seeded/$id
  props=$(python3 -c "import json;m=json.load(open('$d/meta.json'));print(' '.join(m.get('detect_with',[m['property']])))")
  echo "== $id"
  ./tools/tryseed.sh "$PWD/$d/patch.diff" $tier $props 2>&1 | grep -v "^KNOWN" | cut -c1-220 | head -8
done
git -C /repo status --short | head -3
