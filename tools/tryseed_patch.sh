#!/bin/bash
# tools/tryseed_patch.sh <patch.diff> <tier> <Cxx> [more checks]
# preliminary evaluation without touching /repo: a scratch worktree of /repo's HEAD under /tmp gets the
# patch, the checks run against it (VERIF_REPO), the worktree is removed afterwards.
set -u
cd "$(dirname "$0")/.."
patch=$(readlink -f "$1"); tier=$2; shift 2
wt=$(mktemp -d /tmp/wtp_XXXXXX); rmdir "$wt"
git -C /repo worktree add --detach "$wt" HEAD >/dev/null 2>&1 || { echo "cannot create worktree"; exit 2; }
trap 'git -C /repo worktree remove --force "$wt" >/dev/null 2>&1' EXIT
git -C "$wt" apply "$patch" || { echo "patch does not apply to HEAD"; exit 2; }
for c in "$@"; do
  out=$(VERIF_REPO=$wt PYTHONPATH=$wt ./check $c --tier $tier 2>&1); rc=$?
  echo "$c rc=$rc $(echo "$out" | tail -1)"
  echo "$out" | grep -A1 "^VIOLATION" | head -6
done
