#!/usr/bin/env python3
"""storeseed.py ID 'needs' 'caught_by' ['notes']: copy the confirmed seeded change from the
scratch worktree /tmp/wt_ID to /verif/seeded/ID and write meta.json."""
import json, os, shutil, sys
ID, needs, caught = sys.argv[1:4]
notes = sys.argv[4] if len(sys.argv) > 4 else ""
wt = os.environ.get("WT", f"/tmp/wt_{ID}")
tag = os.path.basename(wt)
name = ID + ("b" if tag.startswith("wt2_") else "c" if tag.startswith("wt3_") else "d" if tag.startswith("wt4_") else "e" if tag.startswith("wt5_") else "f" if tag.startswith("wt6_") else "g" if tag.startswith("wt7_") else "h" if tag.startswith("wt8_") else "i" if tag.startswith("wt9_") else "j" if tag.startswith("wt10_") else "")
dst = os.path.join(os.path.dirname(os.path.dirname(os.path.abspath(__file__))), "seeded", name)
os.makedirs(dst, exist_ok=True)
shutil.copy(f"{wt}/patch_{ID}.diff", f"{dst}/patch.diff")
shutil.copy(f"{wt}/demo_{ID}.py", f"{dst}/demo.py")
conf = ""
import glob
for p in sorted(glob.glob("/tmp/confirm_?.log")):
    if os.path.exists(p):
        for line in open(p):
            if line.startswith(tag + " ") or (tag == "wt_" + ID and line.startswith(ID + " ")):
                conf = line.strip()
files = sorted({l.split(" b/")[1].strip() for l in open(f"{dst}/patch.diff") if l.startswith("diff --git")})
meta = {
    "property": ID,
    "files_changed": files,
    "needs_to_manifest": needs,
    "produced_by": "fresh sub-agent given only the property record and a scratch worktree (nothing from /verif)",
    "confirmed": {
        "how": "tools/confirmseed.sh in the scratch worktree: demo with the patch, pinned test suite with the patch, demo without the patch",
        "result": conf,
    },
    "checks_run": caught,
    "notes": notes,
}
json.dump(meta, open(f"{dst}/meta.json", "w"), indent=1)
print("stored", dst, conf)
