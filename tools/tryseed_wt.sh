#!/bin/bash
# tools/tryseed_wt.sh <worktree> <tier> <Cxx> [more]   - preliminary evaluation of a seeded
# change in a scratch worktree (adcgen imported from the worktree, /repo untouched).
# The recorded evaluation is always done with tools/tryseed.sh against /repo itself.
cd "$(dirname "$0")/.."
wt=$1; tier=$2; shift 2
for c in "$@"; do
  out=$(VERIF_REPO=$wt PYTHONPATH=$wt ./check $c --tier $tier 2>&1); rc=$?
  echo "$c rc=$rc $(echo "$out" | tail -1)"
  echo "$out" | grep -A1 "^VIOLATION" | cut -c1-300 | head -6
done
