#!/bin/bash
# tools/tryseed.sh <patch.diff> <tier> <Cxx> [more checks]
# applies a seeded change to /repo, runs the given checks, and undoes the change
set -u
cd "$(dirname "$0")/.."
patch=$1; tier=$2; shift 2
git -C /repo diff --quiet || { echo "repo working tree is dirty"; exit 2; }
git -C /repo apply "$patch" || { echo "patch does not apply"; exit 2; }
trap 'git -C /repo checkout -- . ; git -C /repo status --short | head -3' EXIT
for c in "$@"; do
  out=$(./check $c --tier $tier 2>&1); rc=$?
  echo "$c rc=$rc $(echo "$out" | tail -1)"
  echo "$out" | grep -A1 "^VIOLATION" | head -6
done
