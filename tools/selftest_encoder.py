#!/usr/bin/env python3
"""
tools/selftest_encoder.py   (run with /verif/.venv/bin/python, PYTHONPATH=/verif)

Translator self-test (Serval style): every expression of the repository's own
reference data (tests/reference_data/*.json) is pushed through
  (a) the encoder used for the z3 queries  (vlib/ir.py -> vlib/poly.py monomial lists)
  (b) the replay evaluator on the sympy tree (vlib/replay.py)
under one random rational valuation of the tensor entries, for a few target
assignments of a 2o2v model; the two numbers must agree exactly.
Exit 0: all agree; 1: a disagreement (encoder or evaluator bug).
"""
import glob, json, os, random, sys, time
from fractions import Fraction

sys.path.insert(0, os.path.dirname(os.path.dirname(os.path.abspath(__file__))))
from sympy import nsimplify, S
from vlib import ir as IR
from vlib.driver import REPO
from vlib.model import Model
from vlib.poly import Vars, FreeValuation, spec_from, expr_value, Undefined, Unsupported
from vlib.replay import NumericValues, eval_sympy
from vlib.tv import expand_numer, default_target
from adcgen.func import import_from_sympy_latex
from adcgen.indices import Index


def strings(x):
    if isinstance(x, dict):
        for v in x.values():
            yield from strings(v)
    elif isinstance(x, list):
        for v in x:
            yield from strings(v)
    elif isinstance(x, str):
        yield x


def main():
    rng = random.Random(0)
    model = Model(2, 2)
    n = bad = skipped = 0
    t0 = time.time()
    for f in sorted(glob.glob(os.path.join(REPO, "tests/reference_data/*.json"))):
        for s in strings(json.load(open(f))):
            if "a_" in s or "a^\\dagger" in s or len(s) > 6000:
                skipped += 1            # operator strings / very long expressions
                continue
            try:
                e = import_from_sympy_latex(s, convert_default_names=True).sympy
            except Exception:
                skipped += 1
                continue
            if e.is_number:
                continue
            A = expand_numer(e)
            ir = IR.expr_ir(A)
            T = sorted(default_target([ir]))
            tobj = {IR.idx_ir(x): x for x in A.atoms(Index)}
            vars_ = Vars()
            try:
                val = FreeValuation(vars_, model, spec_from(ir))
                taus = list(model.assignments(T))
                rng.shuffle(taus)
                for tau in taus[:3]:
                    ml = expr_value(ir, model, val, tau)
                    vals = {v: Fraction(rng.randint(-9, 9) or 1, rng.randint(1, 4))
                            for v in range(len(vars_.keys)) if vars_.keys[v][0] not in ("I", "R")}
                    num = NumericValues(vars_, vals)
                    va = nsimplify(num.ml(ml))
                    vb = eval_sympy(A, model, val, num, {tobj[k]: o for k, o in tau.items()})
                    n += 1
                    if (va - vb).simplify() != 0:
                        bad += 1
                        print("DISAGREEMENT", os.path.basename(f), s[:120], tau, va, vb)
            except (Undefined, Unsupported, ZeroDivisionError):
                skipped += 1
    print(f"{n} evaluations compared, {bad} disagreements, {skipped} skipped, {time.time() - t0:.0f} s")
    return 1 if bad else 0


if __name__ == "__main__":
    sys.exit(main())
