#!/usr/bin/env python3
"""
tools/crosscheck.py [checks...]   (default: C07 C09 C13 C14 C20)

Cross-solver self-test of the E1 encoding: runs the given quick checks with
VERIF_DUMP_SMT set, then re-decides every dumped query text with
  - /usr/bin/z3 (4.8.12, independent build of z3),
  - the cvc5 binary (1.0.3),
and compares the verdicts with the one the z3 wheel gave.  Disagreement
(sat vs unsat) is an encoding / solver problem and exits 1; `unknown`/timeouts of
the other solvers are counted, not failures.  The scratch directory is removed.
"""
import glob, os, re, shutil, subprocess, sys, tempfile, collections

ROOT = os.path.dirname(os.path.dirname(os.path.abspath(__file__)))
checks = sys.argv[1:] or ["C07", "C09", "C13", "C14", "C20"]
d = tempfile.mkdtemp(prefix="verif_smt_")
try:
    for c in checks:
        env = dict(os.environ, VERIF_DUMP_SMT=os.path.join(d, c))
        subprocess.run([os.path.join(ROOT, "check"), c, "--tier", "quick"], env=env,
                       stdout=subprocess.DEVNULL, stderr=subprocess.DEVNULL)
    stats = collections.Counter()
    bad = []
    for c in checks:
        files = sorted(glob.glob(os.path.join(d, c, "*.smt2")))[:150]
        for f in files:
            want = open(f).readline().split(":")[1].strip()
            if want not in ("sat", "unsat"):
                continue
            for name, cmd in (("z3-4.8.12", ["/usr/bin/z3", "-T:20", f]),
                              ("cvc5-1.0.3", ["cvc5", "--tlimit=20000", f])):
                try:
                    out = subprocess.run(cmd, capture_output=True, text=True, timeout=40)
                    out = out.stdout + out.stderr
                except subprocess.TimeoutExpired:
                    out = "timeout"
                m = re.search(r"^(sat|unsat|unknown|timeout)", out, re.M)
                got = m.group(1) if m else ("timeout" if "timeout" in out else "error")
                if "(error" in out:
                    got = "error"
                stats[(c, name, want, got)] += 1
                if got in ("sat", "unsat") and got != want:
                    bad.append((f, name, want, got))
    for k in sorted(stats):
        print(*k, stats[k])
    if bad:
        for b in bad[:10]:
            print("DISAGREEMENT", *b)
            shutil.copy(b[0], ROOT)
        sys.exit(1)
    print("no disagreement")
finally:
    shutil.rmtree(d, ignore_errors=True)
