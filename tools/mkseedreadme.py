#!/usr/bin/env python3
"""Writes seeded/README.md from seeded/*/meta.json and the official evaluation log
(tools/evalseeds.sh > seeded/EVAL.txt)."""
import glob, json, os, re
ROOT = os.path.dirname(os.path.dirname(os.path.abspath(__file__)))
ev = {}
p = os.path.join(ROOT, "seeded", "EVAL.txt")
if os.path.exists(p):
    cur = None
    for line in open(p):
        m = re.match(r"== (\S+)", line)
        if m:
            cur = m.group(1)
            continue
        m = re.match(r"(C\d\d) rc=(\d+) \[(C\d\d) (\w+)\] (.*)", line)
        if m and cur:
            # several checks may be run for one change: reported if any of them reports it
            old = ev.get(cur)
            if old is None or (old[0] != "1" and m.group(2) == "1"):
                ev[cur] = (m.group(2), m.group(1) + ": " + m.group(5).strip())
rows = []
for d in sorted(glob.glob(os.path.join(ROOT, "seeded", "C*"))):
    name = os.path.basename(d)
    m = json.load(open(os.path.join(d, "meta.json")))
    rc, summ = ev.get(name, ("?", ""))
    verdict = {"1": "VIOLATION reported", "0": "**missed**", "3": "harness error"}.get(rc, "not run")
    first = "missed at first" if ("missed at first" in m["checks_run"].lower() or "not reported" in m["checks_run"]) \
        else "caught as built"
    rows.append((name, m["property"], ", ".join(os.path.basename(f) for f in m["files_changed"]),
                 m["needs_to_manifest"], first, verdict, m["checks_run"]))
out = ["# Seeded breaking changes", "",
       "Each directory holds `patch.diff` (applies to /repo with `git -C /repo apply`), `demo.py` (exits 1 with the",
       "patch, 0 without; written by the sub-agent, independent of /verif) and `meta.json`.  Every change was",
       "produced by a fresh sub-agent that saw only the property record and a scratch worktree, keeps the 127",
       "tests green, and was confirmed here with `tools/confirmseed.sh` (demo with patch = 1, tests pass, demo",
       "without patch = 0).  `<id>b` / `<id>c` / `<id>d` are the second / third / fourth change for the same property (the agent was",
       "told which mechanism had been used before).  The last column is the official run: patch applied to /repo,",
       "quick check of the property, patch undone (`tools/evalseeds.sh`, log in `EVAL.txt`).", "",
       "| change | files | needs to manifest | first evaluation | current quick check |", "|---|---|---|---|---|"]
for name, prop, files, needs, first, verdict, run in rows:
    out.append(f"| {name} | {files} | {needs} | {first} | {verdict} |")
out += ["", "## What was strengthened where a change was missed", ""]
for name, prop, files, needs, first, verdict, run in rows:
    if first != "caught as built":
        out.append(f"- **{name}**: {run}")
n_first = sum(1 for r in rows if r[4] == "caught as built")
out += ["", f"{len(rows)} changes; {n_first} were caught by the checks as they were when the change arrived, "
        f"{len(rows) - n_first} were missed at first and led to a stronger generator, bound or harness; "
        f"{sum(1 for r in rows if r[5] == 'VIOLATION reported')} are reported by the current quick checks."]
open(os.path.join(ROOT, "seeded", "README.md"), "w").write("\n".join(out) + "\n")
print(len(rows), "rows")

# compact table for DESIGN.md (between the SEEDTABLE markers)
dp = os.path.join(ROOT, "DESIGN.md")
d = open(dp).read()
b, e_ = "<!-- SEEDTABLE:BEGIN -->", "<!-- SEEDTABLE:END -->"
if b in d and e_ in d:
    lines = ["| change | breaks | first evaluation | reported now by |", "|---|---|---|---|"]
    for name, prop, files, needs, first, verdict, run in rows:
        m = json.load(open(os.path.join(ROOT, "seeded", name, "meta.json")))
        by = ", ".join(m.get("detect_with", [prop])) + " quick" if verdict == "VIOLATION reported" else verdict
        short = needs if len(needs) < 150 else needs[:147] + "..."
        lines.append(f"| {name} | {short} | {first} | {by} |")
    d = d[:d.index(b) + len(b)] + "\n" + "\n".join(lines) + "\n" + d[d.index(e_):]
    open(dp, "w").write(d)
