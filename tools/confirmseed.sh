#!/bin/bash
# confirmseed.sh <ID> [worktree]: in the scratch worktree /tmp/wt_<ID> (patch applied by the sub-agent)
# confirm: demo fails with the patch, the pinned test suite passes with it, demo passes without.
ID=$1; WT=${2:-/tmp/wt_$ID}; TAG=$(basename $WT)
cd "$WT" || exit 2
P=patch_$ID.diff; D=demo_$ID.py
git apply -R --check "$P" 2>/dev/null || { git checkout -- adcgen; git apply "$P" || exit 2; }
PYTHONPATH=$WT timeout 900 /venv/bin/python "$D" >/tmp/confirm_$TAG.with.log 2>&1; with=$?
PYTHONPATH=$WT /venv/bin/python -m pytest -q -p no:cacheprovider tests >/tmp/confirm_$TAG.tests.log 2>&1; tests=$?
git apply -R "$P"
PYTHONPATH=$WT timeout 900 /venv/bin/python "$D" >/tmp/confirm_$TAG.without.log 2>&1; without=$?
git apply "$P"
echo "$TAG $ID demo_with_patch=$with tests=$tests ($(tail -1 /tmp/confirm_$TAG.tests.log)) demo_without_patch=$without"
