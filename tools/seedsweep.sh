#!/bin/bash
# ./tools/seedsweep.sh "1 2 3" [tier]  - runs every check for the given VERIF_SEEDs
cd "$(dirname "$0")/.."
./vlib/env.sh >/dev/null
for s in $1; do
  for n in $(seq -w 1 20); do
    out=$(VERIF_SEED=$s ./check C$n --tier ${2:-quick} 2>&1); rc=$?
    echo "seed=$s C$n rc=$rc $(echo "$out" | tail -1)"
    if [ $rc -ne 0 ]; then echo "$out" | grep -E -A1 "^(VIOLATION|HARNESS)" | head -12; fi
  done
done
