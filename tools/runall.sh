#!/bin/bash
# runs every quick check once, prints one line per check
cd "$(dirname "$0")/.."
for n in $(seq -w 1 20); do
  t0=$(date +%s)
  out=$(./check C$n --tier ${1:-quick} 2>&1); rc=$?
  echo "C$n rc=$rc $(( $(date +%s) - t0 ))s $(echo "$out" | tail -1)"
  echo "$out" | grep -E "^(VIOLATION|HARNESS|KNOWN)" | head -3
done
