#!/bin/bash
# tools/runall.sh [tier] [ids...]: runs the checks (default: all twenty) once, prints one line per check
cd "$(dirname "$0")/.."
tier=${1:-quick}; shift
ids=${@:-$(seq -f "C%02g" 1 20)}
for id in $ids; do
  t0=$(date +%s)
  out=$(./check $id --tier $tier 2>&1); rc=$?
  echo "$id rc=$rc $(( $(date +%s) - t0 ))s $(echo "$out" | tail -1)"
  echo "$out" | grep -E "^(VIOLATION|HARNESS|KNOWN)" | head -3
done
