#!/usr/bin/env python3
"""Regenerates /verif/MANIFEST.json from the table below (kept in one place so
that the manifest is always valid)."""
import json, os
ROOT = os.path.dirname(os.path.dirname(os.path.abspath(__file__)))
ALL = [f"C{n:02d}" for n in range(1, 21)]

TV = "translation_validation"
CHECKS = {
 "C07": dict(
    level=TV, design="2/C07", engine="tvsmt",
    technique="SMT translation validation: real simplify() run on generated sums, input/output encoded as polynomials over symbolic tensor entries in a finite orbital model, z3 decides value equality for all entries and target assignments; sat models replayed exactly",
    text="Each run of the real simplify() on a generated sum (scalar sums also with a term that carries no index) is validated by z3: value(out)=value(in) for every tensor valuation with the declared symmetries and every target assignment of a 3o3v/2o2v (spin: 2o2v x ab) model; term count, targets, assumptions and merging of alpha-equivalent pairs are direct checks on the concrete output.",
    note="Bounded: expression shapes come from a seeded generator (plain, Kronecker deltas on contracted indices, general indices, exponents, repeated targets, spin, symbolic denominators, identical tensors repeated in cycles / rings; <=9 terms, <=3 tensors/term, <=5 contracted, <=4 targets), orbital model <=3o3v. Trusted: sympy, z3, the IR reader and the harness' symmetry canonicalisation; sat models are replayed on the sympy trees before reporting."),
 "C08": dict(
    level=TV, design="2/C08", engine="tvsmt",
    technique="CrossHair symbolic execution of order_substitutions / Container.permute (regenerated from source) / get_lowest_avail_indices / split_idx_string over all small map shapes + z3 translation validation of substitute_contracted, substitute_with_generic, permute, ordered subs on generated terms",
    text="CrossHair confirms, over all index maps with <=3 entries on 5 ids (thorough: 4 on 6) and all sequences of <=3 transpositions, that the ordered substitution list equals the simultaneous map and that permute composes transpositions, and that get_lowest_avail_indices returns the lowest unused names for n <= 17 with up to 2 (3) used base / numbered names; z3 validates value preservation of each renaming run; lowest-name / freshness / identity conjuncts are direct comparisons.",
    note="Bounded map sizes and id ranges (stated in evidence); CrossHair stubs: indices as ints, `is`->`==`, temporary index = fresh negative int. Registry history limited to the checking process (histories: C19)."),
 "C09": dict(
    level=TV, design="2/C09", engine="tvsmt",
    technique="SMT translation validation of evaluate_deltas in a typed orbital model (index range = its space and spin): z3 decides value equality for all tensor entries and target assignments, which implies no information-losing replacement",
    text="Each run of the real evaluate_deltas on generated delta chains/stars (occ/virt/general, spin labelled or not, explicit or Einstein targets; also products with a factor that is not expanded) is validated by z3 in typed models up to 3o2v / 2o1v x spin.",
    note="Bounded generator (1-3 tensors, 1-4 deltas, <=4 contracted); the property's precondition (each contracted index on a non-delta object) is enforced by the generator; sat models replayed exactly."),
 "C01": dict(
    level=TV, design="2/C01", engine="detref",
    technique="z3 equivalence (QF_LIA+Bool) of the delta polynomial returned by the real wicks() with a bit-string vacuum-expectation circuit whose orbital positions are symbolic; plus z3 (QF_NRA) validation of wicks() on tensor x operator products against concrete determinant sums with symbolic tensor entries",
    text="For every enumerated operator string (all of length 2, sampled/exhaustive length 4, sampled 3/5/6/8, 0-2 normal-ordered groups; balanced strings of number-conserving blocks with up to six general indices inside normal-ordered groups) z3 shows that wicks' result equals the determinant-space vev for every assignment of orbitals in a 2o2v (thorough 3o3v) model; contracted products incl. delta evaluation and block rules (also with an operator-free term next to the operator product) are validated against sum_assign prod T * vev for all tensor values.",
    note="Bounded: string shapes enumerated (not solver variables), model <=3o3v, spin-labelled operators not explored (documented refusal). Trusted: sympy's construction of NO objects, z3, vlib/detref.py (independent of adcgen's Wick code). sat models are replayed on concrete bit strings."),
 "C02": dict(
    level=TV, design="2/C02", engine="detref",
    technique="z3 polynomial-identity check of each derived ground-state expression (energy, MP amplitude, RE residual, 1-/2-particle expectation value) against explicit RSPT on occupation bit strings with symbolic integrals, orbital energies and lower-order amplitudes; z3 identity of the norm-factor order expansion with the series of 1/(1+x) obtained from c(1+x)=1; CrossHair on gen_term_orders",
    text="Each expression returned by the real GroundState API is shown equal, for all integrals / orbital energies / lower-order amplitudes and all index assignments of a 2o2v (thorough: up to 3o3v) model, to the quantity computed by explicit determinant-space RSPT; orders <=3 in 2o2v quick, third-order singles in 3o3v and third-order doubles in 4o4v on a bounded number of target assignments (triples / quadruples couplings); the fourth-order one-particle expectation value (mp, 2o2v: two overlap factors in one term of the norm factor) quick; up to 3o3v, energy 4 and the fourth-order expectation value with first-order singles thorough; mp and re; with/without first-order singles; a second amplitude request for the same order and class on one object with shifted / swapped target names. The order expansion returned by expand_norm_factor is shown by z3 to be the lambda^n coefficient of 1/(1+x) for all overlap values (orders <=6/8/9 for min_order 1/2/3; thorough 8/11/12).",
    note="Induction over the order: lower-order wavefunctions are free amplitude unknowns in adcgen's documented convention. Canonical orbitals for MP amplitudes; inverse orbital-energy forms are shared free unknowns (sound). Quadruples (need 4o4v) outside."),
 "C04": dict(
    level=TV, design="2/C04", engine="tvsmt",
    technique="z3 polynomial-identity check: the expression returned by the real overlap_isr is identically the antisymmetrised delta product (order 0, equal classes) or identically zero (all other cases) for all ground-state amplitude values and index assignments; overlap_precursor(I,J) vs (J,I) by z3; the real s_root with stubbed overlap blocks vs the matrix power series of S^(-1/2) by z3",
    text="For the five ADC variants, the two lowest classes, all class pairs and orders <=2 (third-order precursor-overlap symmetry and orthonormality of the lowest class with singles; thorough <=3, order 4 for h/p/hh/pp), mp and re, with/without first-order singles, and for the triples class of pp/ip/ea against the lowest and doubles class (orders 0-1), z3 decides orthonormality of the derived intermediate states for all amplitude values in models that host both index tuples. s_root is executed with overlap_precursor stubbed by free block tensors and shown equal to the lambda^n coefficient of (1+sum S^(k))^(-1/2) as a matrix series over restricted composite indices (orders 2-6, thorough 8; classes ph, h, hh, pp, phh, pph, pphh); expand_S_taylor vs the series from y*y*(1+x)=1.",
    note="Bounded orders/classes/models (stated in evidence). Amplitudes are free unknowns, bra amplitudes independent (identified for the precursor-overlap symmetry). The s_root kernel check stubs overlap_precursor (environment stub, stated in evidence)."),
 "C03": dict(
    level=TV, design="2/C03", engine="detref",
    technique="z3 polynomial-identity check of each derived secular-matrix block / precursor block / MVP against the order-n coefficient of <I|H-E0|J> between intermediate states built explicitly on occupation bit strings (excitation operators on the normalised perturbed ground state, projection, S^-1/2 from X X S = 1); transpose relation between two real outputs; CrossHair on block_order",
    text="For all five variants, the blocks and orders of ADC(3) (quick: orders <=2, blocks with <=6 indices), subtract_gs on (all) and off (lowest diagonal block, and forwarded through mvp), every matrix element returned by the real code is shown equal to the explicit construction for all integrals, Fock matrices, amplitude values and bra/ket index assignments of the model; MVPs with the documented hidden-factor normalisation; SecularMatrix.mvp vs the sum of its blocks over the harness' own ADC(n) truncation table.",
    note="Ground-state corrections are free amplitude unknowns in adcgen's convention (C02/C12 tie them to RSPT). Models: n_o,n_v = max(2,#h/#p); thorough adds 3o3v for small blocks. mp partitioning only (as the property states)."),
 "C05": dict(
    level=TV, design="2/C05", engine="detref",
    technique="z3 polynomial-identity check of each derived ISR expectation-value block contribution and transition moment against the order-n coefficient of the explicit matrix element (operator minus ground-state expectation value) between intermediate states / the normalised perturbed ground state built on occupation bit strings, contracted with free amplitude vectors using the documented normalisation",
    text="For pp/ip/ea, dip/dea (quick: lowest diagonal block to order 2, second-order coupling blocks and second-order doubles transition moment; thorough: all blocks) and the mixed ip/pp, pp/ea combinations, blocks of the two lowest classes, 1- and 2-particle operators, explicit and default operator strings, orders <=2 (and the third-order lowest diagonal block with first-order singles), subtract_gs on/off, the scalar returned by the real code equals the explicit matrix-element contraction for all integrals, operator matrices, amplitude vectors and ground-state amplitudes of the model; expectation_value / trans_moment (which only sum contributions) vs the sum over the harness' own truncation table.",
    note="Same parametrisation and models as C03. Operator strings with unequal numbers of creators/annihilators are covered for transition moments (default string per variant + one non-default)."),
 "C20": dict(
    level=TV, design="2/C20", engine="tvsmt",
    technique="SMT translation validation of simplify_unitary with the named tensor valued as an orthogonal matrix through a complete, homogenised rational parametrisation (rotation / Euler-Rodrigues quaternion, both determinant sheets): z3 decides value equality for all parameters, remainder entries and target assignments",
    text="Each run of the real simplify_unitary (with and without delta evaluation, explicit or Einstein targets) on generated products of 2-5 unitary tensors is validated for every orthogonal matrix of dimension 2 or 3 on the tensor's index space.",
    note="Orthogonal groups O(2), O(3) only; total degree in the unitary tensor <= 6 (thorough 7); shapes from a seeded generator. A self-test proves U_pq U_pr c_qr = c_qq and refutes the mixed-position variant on every run."),
 "C06": dict(
    level=TV, design="2/C06", engine="tvsmt",
    technique="z3: value of every constructed tensor object (sign + stored index order) equals the entry its raw index tuple denotes under an independent reading of the declared symmetry, for all entries and orbital assignments of a typed model; CrossHair symbolic execution of _need_bra_ket_swap / sort_idx_canonical / preferred_and_killable (regenerated from source) over symbolic index attributes",
    text="All pairs (rank 1|1) and sampled tuples (ranks 2|2, 2|1, 3|3; 4|2, 4|4 and thorough 5|1 over spinless names) over a 21-index pool (occ/virt/general, spin none/alpha/beta, numbered names) x 3 tensor classes x bra-ket 0/+1/-1, all delta pairs, substitutions, and Expr assumptions on generated expressions incl. exponents (idempotence direct, value by z3). CrossHair confirms totality/antisymmetry of the bra-ket swap decision and the canonical sort order for symbolic spaces, spins and names.",
    note="Oracle for 'declared symmetry' = vlib/model.canon_entry (independent). Bounded index pool and ranks; CrossHair stubs: duck-typed Index, hash(idx)=0. The bra-ket-antisymmetric diagonal (not listed by the property as a forced zero) is not demanded."),
 "C18": dict(
    level=TV, design="2/C18", engine="tvsmt",
    technique="z3 value equivalence of each expression with the expression re-imported from its printed LaTeX (symbolic tensor entries, all target assignments); tensor kinds and re-printed text compared directly; operator expressions structurally",
    text="For generated expressions covering every printable object kind (incl. tensors with only upper or only lower indices) and for library results (operator matrices Operators.operator(n_c, n_a), energies, amplitudes, wavefunctions, precursor states, matrix blocks, densities, symbolic-denominator and real variants) the value conjunct of the round trip is decided by z3, kinds and text by direct comparison.",
    note="Only the value conjunct is a solver verdict (kinds/text have no quantifier left). Default tensor-name configuration; bra-ket symmetries only through Expr assumptions (object-level flags are not printed)."),
 "C10": dict(
    level=TV, design="2/C10", engine="tvsmt",
    technique="SMT translation validation: every (permutation product, +-1) reported by the real Term.symmetry/Obj.symmetry is checked by z3 against the term with the composed permutation applied independently, and every reported transposition must preserve the index range (space and spin); the parts returned by exploit_perm_sym / sort.by_* / filter_tensor are re-assembled and compared with the input by z3 (symbolic tensor entries, all target assignments); filing keys recomputed directly",
    text="Generated terms (1-3 tensors, denominators, exponents, spin) in the three index modes and per object; expressions symmetrised over random subgroups (generic terms and twin terms: two copies of one tensor with the targets distributed) for exploit_perm_sym with all target-string / bra-ket / result-tensor options; five sorters and filter_tensor (all strictness levels, also on expressions over few tensor names with the request drawn from what one term holds).",
    note="Bounded generator and models (<=3o3v). Permutations are applied by sympy's simultaneous substitution of the composed map, not by adcgen's permute. Cases in which Term.symmetry does not finish within the per-case limit give no verdict (counted in evidence)."),
 "C14": dict(
    level=TV, design="2/C14", engine="tvsmt",
    technique="SMT translation validation: block expressions returned by the real remove_tensor are re-contracted with the canonical tensor blocks (documented normalisation) and compared with the input by z3; the symmetry of each block expression is checked by z3; derivative blocks contracted with a free variation tensor are compared by z3 with the first-order coefficient of expr(T + eps dT)",
    text="Generated expressions (Einstein-unambiguous) with removable tensors of ranks 1|1, 2|2, 2|1, non-symmetric rank 2/3, bra-ket 0/+1/-1 and ADC amplitude vectors, incl. target-carrying and repeated indices on the removed tensor, two occurrences contracted with each other, explicit target indices and spin-labelled indices (mixed spin blocks); derivative with 1-2 occurrences and exponent 2.",
    note="remove_tensor: one or two occurrences (exponent 1) per term, with two the copy named first in the sorted key carries the lowest non-target index names; derivative: all tensor indices contracted (with target indices on the tensor the block result carries no deltas: outside). Normalisation c/|G| fixed from the docstrings."),
 "C13": dict(
    level=TV, design="2/C13", engine="tvsmt",
    technique="SMT translation validation of the orbital-energy fraction algebra: input and actual output of each real operation encoded over symbolic orbital energies and tensor entries; two-stage decision (free inverse-bracket unknowns, then denominators cleared per outer monomial) by z3",
    text="split/rebuild, canonicalize_sign (default and only_denom), permute_num (incl. remainders symmetric only under products of transpositions, partial denominators, target-index symmetries), cancel_orb_energy_frac, factor_eri_parts, factor_denom, symbolic<->explicit denominators (both directions), diagonalize_fock (diagonal Fock model; incl. chains of Fock elements with intersecting indices), block_diagonalize_fock (block-diagonal model) on generated terms with 1-3 brackets (powers <=2) and rational numerators incl. weighted combinations of the brackets.",
    note="Models <=2o2v; brackets of >=2 energies; documented refusals give no verdict. Stage 2 assumes non-vanishing brackets. Known finding C13-orphan-energy-index: factor_eri_parts captures a contracted index that occurs in the orbital-energy part only (recorded in known_findings.json, not repaired)."),
 "C16": dict(
    level=TV, design="2/C16", engine="tvsmt",
    technique="the scheme returned by the real optimize_contractions / unoptimized_contraction is interpreted step by step by the harness and its result compared with the term's value by z3 (symbolic tensor entries, all target assignments); use-once, sum-once, limits, reported scaling and the scaling bound are direct checks; CrossHair on _split_contracted_and_target and _group_objects with symbolic index layouts",
    text="Generated terms with 2-4 tensors (deltas, symbols, exponents, traces, outer products, hyper-contractions), random requested target order, seven limit settings; hyper-contractions with two hyper indices under limits of four / five simultaneously contracted objects.",
    note="Models <=2o2v. An intermediate that already carries exactly the indices of the final result is exempt from max_itmd_dim (as the code documents). CrossHair: 3 objects x 2 indices over 3 ids (thorough 4)."),
 "C17": dict(
    level=TV, design="2/C17", engine="tvsmt",
    technique="the text emitted by the real generate_code (einsum and libtensor) is parsed and evaluated by an independent interpreter that returns polynomials in symbolic tensor entries (nested contractions, block names checked against index letters, prefactors, permutation operators applied to the target assignment); z3 decides equality with the expression's value for all entries and all target assignments in the requested order",
    text="Generated expressions (single tensors, traces, outer products, nested contractions, symmetry partners, second terms built from the same objects with re-wired contracted indices) x 11 target-string shapes in random requested order x bra-ket 0/+1/-1 x (anti)symmetric result x both back ends x optimised/unoptimised x limits.",
    note="Models <=2o2v; scalar literals of libtensor (C++) lines follow C++ arithmetic (integer literal / integer literal truncates); inputs with non-unique index names or ambiguous printed block names are skipped and counted; documented NotImplementedError refusals give no verdict (in this sympy version every sqrt prefactor is refused: the branch compares the exponent with the float 0.5)."),
 "C12": dict(
    level=TV, design="2/C12", engine="detref",
    technique="z3 identity check of every registered intermediate's expanded definition (once and fully expanded; default, permuted, shifted and numbered index tuples) against explicit RSPT amplitudes / densities / RE residuals computed on occupation bit strings, against the independently derived residuals, and against its own lower-level expansion; declared tensor symmetries checked by z3 on the expanded expression",
    text="t2_1, t1_2, t2_2, t3_2, t1_3, t2_3, p0_2_oo/vv, p0_3_oo/ov/vv, the three RE residuals, t2eri_1..7, t2eri_A/B, t2sq in models max(2,#occ) x max(2,#virt) (thorough: also 3o3v); stage 2 (cleared denominators) decides the fully expanded forms whose denominators adcgen multiplies out.",
    note="Real orbital basis. Quadruples contributions vanish below 4o4v: t2_3, t1_3, t2_2, t3_2 (thorough: t4_2, fully expanded t2_3) are additionally compared in 4o4v on a bounded number of target assignments (4 quick / 24 thorough, all-different orbitals first), not on all assignments of that model. t2eri_1..7 / t2sq: only expansion consistency and declared symmetry (no independent oracle for their naming). Spin blocks: C15."),
 "C11": dict(
    level=TV, design="2/C11", engine="tvsmt",
    technique="SMT translation validation of expand_intermediates / factor_intermediates / reduce_expr under the valuation in which every registered intermediate tensor takes the value of its fully expanded registered definition (evaluated from expand_itmd); two-stage z3 decision over integrals, orbital energies, free tensors and target assignments",
    text="Products of an intermediate tensor (second- and third-order amplitudes / densities, composite intermediates) with free tensors (any subset of indices contracted, optional Fock factor, second intermediate or second copy of the same intermediate), long intermediates times an ERI with rescaled terms (mixed prefactors) and V^n/D^m with unequal exponents n != m <= 3 of integral and orbital-energy bracket for factor_intermediates, and library results (E(2), E(3), second-order density, ip h/h and pp ph/ph second-order blocks, real and Fock-diagonalised); all requested subsets / types / max_order for factorisation; fully vs once expanded.",
    note="Model 2o2v; quadruples outside; cases in which the library does not finish within the per-case limit give no verdict (counted)."),
 "C15": dict(
    level=TV, design="2/C15", engine="tvsmt",
    technique="CrossHair symbolic execution of _has_valid_combination (as it is) + SMT translation validation of integrate_spin / transform_to_spatial_orbitals (expand_eri on/off, restricted) in a spatial x {alpha,beta} orbital model: the spin-orbital input evaluated at the requested target spins and the spin-labelled output share the same unknowns (Coulomb integrals with 8-fold symmetry defining <pq||rs>, spin-conserving amplitudes); blocks not reported by allowed_spin_blocks are shown identically zero by z3",
    text="Generated spin-orbital expressions (V, t amplitudes, ADC vectors, unknown tensors, deltas) with random target order and spins; restricted variant on integral / symbolic-denominator expressions and, in the closed-shell model of the property, on expressions that keep tensor symbols (known finding); expression-level (random products and the directed ladder family) and per-intermediate allowed spin blocks; CrossHair confirms the back-tracking search over spin maps for three tensors with two candidate maps each (three topologies).",
    note="Models <=2o2v spatial x spin. Known finding C15-restricted-merged-blocks: restricted=True on expressions that keep tensor symbols merges spin blocks (recorded in known_findings.json, not repaired). allowed_spin_blocks only for closed expressions (documented RuntimeError otherwise)."),
 "C19": dict(
    level=TV, design="2/C19", engine="tvsmt",
    technique="results of one request obtained in fresh subprocesses under different PYTHONHASHSEEDs, seeded API histories and an alternative tensor-name configuration are shipped as IR and compared with the pristine result by z3 (value equality for all tensor entries / target assignments); CrossHair inductive steps of the index registry (a generic request, and an explicit request of a symbolically chosen name followed by a generic request, from an arbitrary pre-state satisfying the invariant: freshness of generic names for histories of any length); text after substitute_contracted, index-set disjointness and object identity compared directly",
    text="10 (thorough 15) requests x 4 (16) hash seeds x 3 (11) histories of 4-34 calls + 2 runs with every tensor name changed + runs with a chained configuration (left / right ADC amplitude names swapped; also rename_tensors of an expression in default names); registry steps confirmed from every pre-state of a two-letter cell; repeated psi / norm_factor / expand_itmd requests share no contracted index and no term of the precursor states up to third order holds an index more than twice.",
    note="Hash seeds and histories are a bounded sample, not solver variables (stated in evidence). Known finding C19-text-history: the text after substitute_contracted depends on the history (same value); recorded in known_findings.json, not repaired."),
}
NA_REASON = "check not built yet in this round (planned, see DESIGN.md section 2)"

def main():
    checks = []
    for pid in ALL:
        c = CHECKS.get(pid)
        if not c:
            continue
        checks.append({
            "property_id": pid,
            "quick_cmd": f"./check {pid} --tier quick",
            "thorough_cmd": f"./check {pid} --tier thorough",
            "evidence_file": f"/verif/evidence/{pid}.json",
            "replay_cmd_template": f"./check {pid} --replay {{path}}",
            "engine": c["engine"],
            "level_claimed": {"category": c["level"], "text": c["text"], "design_ref": c["design"]},
            "level_note": c["note"],
            "technique": c["technique"],
        })
    na = [{"property_id": p, "reason": NA.get(p, NA_REASON)} for p in ALL if p not in CHECKS]
    man = {
        "version": 1,
        "setup_cmd": "./vlib/env.sh",
        "hooks": {"guard": "ADCGEN_VERIF", "enable": "no hooks: checks import /repo's working tree unmodified (ADCGEN_VERIF=1 is exported by ./check but nothing in /repo reads it)",
                  "baseline_off_cmd": "cd /repo && /venv/bin/python -m pytest -ra -q -p no:cacheprovider --timeout=900 --continue-on-collection-errors",
                  "source_commits": [], "add_only": True},
        "engines": [
            {"name": "tvsmt", "path": "vlib/tv.py", "serves_properties": sorted(p for p, c in CHECKS.items() if c["engine"] == "tvsmt"),
             "kind_free_text": "translation validation by SMT: real adcgen function run concretely, input and actual output encoded as real polynomials over a finite spin-orbital model (vlib/ir.py, poly.py, smt.py), z3 decides equivalence, exact replay (vlib/replay.py)"},
            {"name": "detref", "path": "vlib/detref.py", "serves_properties": sorted(p for p, c in CHECKS.items() if c["engine"] == "detref"),
             "kind_free_text": "independent determinant-space (bit string) second quantisation used as reference semantics; compared with adcgen's output by z3"},
            {"name": "chunit", "path": "vlib/ch", "serves_properties": sorted(p for p, c in CHECKS.items() if c["engine"] == "chunit"),
             "kind_free_text": "CrossHair symbolic execution of adcgen's pure-Python kernels regenerated from /repo source"},
        ],
        "checks": checks,
        "not_applicable": na,
        "notes": "Technique family: solver-based checking of the real code (z3 / CrossHair). Every result is bounded; bounds are in each evidence file and DESIGN.md.",
    }
    with open(os.path.join(ROOT, "MANIFEST.json"), "w") as fh:
        json.dump(man, fh, indent=1)
    print("MANIFEST.json:", len(checks), "checks,", len(na), "not_applicable")

NA = {}
if __name__ == "__main__":
    main()
