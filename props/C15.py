"""
C15  Spin integration yields exactly the requested spin block.

The real integrate_spin / transform_to_spatial_orbitals / allowed_spin_blocks are
run; the spin-orbital input (indices without spin range over both spins of a
spatial x {alpha, beta} model) and the spin-labelled output are encoded with the
*same* tensor unknowns under the valuation `spin`:
  <pq||rs> := [sp=sr][sq=ss] (pr|qs) - [sp=ss][sq=sr] (ps|qr) with symbolic Coulomb
  integrals (8-fold symmetry), t-amplitudes vanish unless the numbers of alpha
  spins in bra and ket agree; all other tensors are unrestricted.
z3 decides, for all tensor values and all spatial target assignments, that the
output equals the input evaluated at the requested spins; that blocks not
reported by allowed_spin_blocks vanish identically; and, for the restricted
variant on integral/energy-only expressions, equality when alpha and beta
integrals / energies coincide.
"""
import argparse
import random
import sys
from fractions import Fraction
from itertools import product

from sympy import S, Rational, Add, Mul, sympify

from vlib import driver, chrun
from vlib import ir as IR
from vlib.driver import Run, pmap, seed
from vlib.model import Model, canon_entry
from vlib.poly import FreeValuation, Unsupported
from vlib.tv import compare, pick_model, expand_numer
from vlib.gen import TermGen, POOL, consistent_bks

FILES = ["adcgen/spatial_orbitals.py", "adcgen/expr_container.py", "adcgen/intermediates.py"]
TIMEOUT = 30000
AMPL = {"t1", "t2", "t3", "t1cc", "t2cc"}


class _Overrides(dict):
    """name -> override; every name without an own entry gets the closed-shell rule"""

    def __init__(self, base, generic):
        super().__init__(base)
        self.generic = generic

    def get(self, name, default=None):
        if name in self:
            return self[name]
        return self.generic


def _closed_shell_entry(vars_, model):
    """Entries of a tensor in the property's restricted model: the entry vanishes on
    non-spin-conserving blocks and is invariant under the global alpha<->beta flip."""
    def entry(val, name, cls, U, L, bks_obj):
        flip = lambda t: tuple(o ^ 1 for o in t)       # noqa: E731
        if cls == "N":
            orbs = tuple(U)
            if len(orbs) == 2 and model.spin_of(orbs[0]) != model.spin_of(orbs[1]):
                return []
            key = min(orbs, flip(orbs))
            return [(Fraction(1), (vars_.get(("N", name + "~", key)),))]
        kind, bks = val.spec.get((name, len(U), len(L)), ("S" if cls == "S" else "A", bks_obj))
        sign, can = canon_entry(kind, U, L, bks)
        if sign == 0:
            return []
        U2, L2 = can
        if len(U2) == len(L2):
            if sum(1 for o in U2 if model.spin_of(o) == "a") != sum(1 for o in L2 if model.spin_of(o) == "a"):
                return []
        s2, can2 = canon_entry(kind, flip(U2), flip(L2), bks)
        if s2 == 0:
            return []
        if can2 == can:
            if s2 == -1:
                return []
        elif can2 < can:
            sign, can = sign * s2, can2
        return [(Fraction(sign), (vars_.get(("T", name + "~", len(U), len(L), can[0], can[1])),))]
    return entry


def spin_valuation_factory(restricted=False, closed_shell=False):
    def factory(vars_, model, spec):
        spec = dict(spec)
        spec[("v", 2, 2)] = ("S", 1)

        def v_entry(val, p, r, q, s):
            """(pr|qs) for spin orbitals; vanishes unless sp = sr and sq = ss"""
            if model.spin_of(p) != model.spin_of(r) or model.spin_of(q) != model.spin_of(s):
                return []
            if restricted:
                P, R, Q, S_ = (model.spatial(x) for x in (p, r, q, s))
                sg, can = canon_entry("S", (P, R), (Q, S_), 1)
                key = ("T", "v~", 2, 2, can[0], can[1])
            else:
                sg, can = canon_entry("S", (p, r), (q, s), 1)
                key = ("T", "v", 2, 2, can[0], can[1])
            return [(Fraction(1), (vars_.get(key),))]

        def V_override(val, name, cls, U, L, bks):
            if len(U) != 2 or len(L) != 2:
                return None
            sgu, cu = (1, U) if U[0] <= U[1] else (-1, (U[1], U[0]))
            if U[0] == U[1] or L[0] == L[1]:
                return []
            p, q = U
            r, s = L
            out = list(v_entry(val, p, r, q, s))
            out += [(-c, m) for c, m in v_entry(val, p, s, q, r)]
            return out

        def v_override(val, name, cls, U, L, bks):
            if len(U) != 2 or len(L) != 2:
                return None
            return v_entry(val, U[0], U[1], L[0], L[1])

        def ampl_zero(model_, U, L):
            a_u = sum(1 for o in U if model_.spin_of(o) == "a")
            a_l = sum(1 for o in L if model_.spin_of(o) == "a")
            return a_u != a_l or len(U) != len(L) and False

        overrides = {"V": V_override, "v": v_override}
        zero = {n: ampl_zero for n in AMPL}
        if restricted:
            def e_override(val, name, cls, U, L, bks):
                if len(U) != 1:
                    return None
                return [(Fraction(1), (vars_.get(("N", "e~", (model.spatial(U[0]),))),))]
            overrides["e"] = e_override

            def D_override(val, name, cls, U, L, bks):
                # 1 / (sum e_upper - sum e_lower) with spin-independent orbital energies
                form = [(Fraction(1), (vars_.get(("N", "e~", (model.spatial(o),))),)) for o in U]
                form += [(Fraction(-1), (vars_.get(("N", "e~", (model.spatial(o),))),)) for o in L]
                return val.inverse_of(form, 1)
            overrides["D"] = D_override
        if closed_shell:
            overrides = _Overrides(overrides, _closed_shell_entry(vars_, model))
        return FreeValuation(vars_, model, spec, overrides=overrides, zero_blocks=zero)
    return factory


def gen_expr(rng, restricted=False, closed=False, symbols=False):
    from adcgen.indices import get_symbols
    names = ["V", "V", "t1", "t2", "Y", "c", "d0"] if not restricted else ["V", "V", "D"]
    if symbols:
        names = ["V", "t1", "t2", "Y", "f", "c"]
    if closed:
        names = ["V", "t1", "t2"]
        if rng.random() < 0.5:
            names = ["V", "t1", "t1cc"]       # products of three four-index tensors
    g = TermGen(rng, spaces="ov", n_tensors=(1, 3) if not closed else rng.choice([(2, 3), (3, 3), (3, 3)]),
                max_contracted=3 if not closed else 5,
                names=names, exclude=(), deltas=(0, 1) if not closed else (0, 0),
                pool_size=5)
    nT = rng.randint(0, 3) if not closed else rng.randint(2, 4)
    T, seen = [], set()
    for _ in range(nT):
        sp = rng.choice("ov")
        nm = rng.choice(POOL[sp][:3 if not closed else 4])
        if nm not in seen:
            seen.add(nm)
            T.append(get_symbols(nm)[0])
    terms = []
    for _ in range(rng.randint(1, 2)):
        try:
            terms.append(g.term_with_target(T))
        except RuntimeError:
            pass
    if not terms:
        raise RuntimeError("no term")
    return Add(*terms), T


def run_integrate(item):
    sd, mode = item
    rng = random.Random(sd)
    from adcgen import Expr
    from adcgen.indices import get_symbols, Index
    from adcgen.spatial_orbitals import integrate_spin, transform_to_spatial_orbitals
    restricted = mode in ("restricted", "restricted_sym")
    try:
        raw, T = gen_expr(rng, mode == "restricted", symbols=(mode == "restricted_sym"))
    except RuntimeError:
        return {"status": "skipped", "item": item}
    if raw is S.Zero or not consistent_bks(raw):
        return {"status": "skipped", "item": item}
    real = mode in ("expand_eri", "restricted", "restricted_sym")
    e = Expr(raw, real=real)
    if any(set(t.target) != set(T) for t in e.terms):
        return {"status": "skipped", "item": item}
    if restricted:
        e.set_antisym_tensors(["D"]) if "D" in str(raw) else None
    order = list(T)
    rng.shuffle(order)
    tstr = "".join(s.name for s in order)
    spins = "".join(rng.choice("ab") for _ in order)
    res = {"item": item, "in": str(e), "target": tstr, "spin": spins, "mode": mode}
    try:
        if mode == "integrate":
            out = integrate_spin(e.copy(), tstr, spins)
        elif mode == "plain":
            out = transform_to_spatial_orbitals(e.copy(), tstr, spins, restricted=False, expand_eri=False)
        elif mode == "expand_eri":
            out = transform_to_spatial_orbitals(e.copy(), tstr, spins, restricted=False, expand_eri=True)
        else:
            out = transform_to_spatial_orbitals(e.copy(), tstr, spins, restricted=True, expand_eri=True)
    except NotImplementedError as exc:
        return dict(res, status="skipped", note=str(exc)[:100])
    res["out"] = str(out)[:500]
    if restricted:
        tB = get_symbols(tstr, "a" * len(spins)) if tstr else []
        # the value of the all-alpha result is compared with the input at the requested spins;
        # the assignments are enumerated over spatial orbitals through alpha indices and the
        # input receives the requested spin
    else:
        tB = get_symbols(tstr, spins) if tstr else []
    model = Model(2, 2, spin=True) if len(T) <= 2 else Model(1, 2, spin=True) if rng.random() < 0.5 else Model(2, 1, spin=True)
    irs = [IR.expr_ir(e.sympy), IR.expr_ir(out.sympy)]
    # cost guard
    from vlib.tv import cost_estimate
    if cost_estimate([irs[0]], {IR.idx_ir(s) for s in order}, model) > 400000:
        model = Model(1, 1, spin=True)
    try:
        if restricted:
            oc = _compare_restricted(e.sympy, out.sympy, order, spins, tB, model,
                                     closed_shell=(mode == "restricted_sym"))
        else:
            oc = compare(e.sympy, out.sympy, order, model, timeout_ms=TIMEOUT, seed=seed(),
                         valuation_factory=spin_valuation_factory(False), target_B=tB)
    except Unsupported as exc:
        return dict(res, status="skipped", note=str(exc)[:100])
    res.update(oc.as_dict())
    res["witness"], res["model"] = oc.witness, model.tag
    res["nontrivial"] = out.sympy is not S.Zero
    return res


def _compare_restricted(A, B, order, spins, tB, model, closed_shell=False):
    """B carries only alpha indices; A is evaluated at (spatial of the alpha orbital,
    requested spin).  Implemented by giving A spin-labelled copies of its target
    indices (relabelling the free target indices of A is a pure renaming)."""
    from adcgen.indices import get_symbols
    tA = get_symbols("".join(s.name for s in order), spins) if order else []
    A2 = A.xreplace(dict(zip(order, tA)))
    # enumerate over B's alpha targets, map to A's spin-labelled targets by spatial orbital
    from vlib.tv import Outcome
    from vlib.poly import Vars, spec_from, expr_value, Undefined
    from vlib.smt import check_equal
    import time
    out = Outcome()
    t0 = time.time()
    irA, irB = IR.expr_ir(expand_numer(A2)), IR.expr_ir(expand_numer(B))
    vars_ = Vars()
    val = spin_valuation_factory(True, closed_shell)(vars_, model, spec_from(irA, irB))
    kB = [IR.idx_ir(s) for s in tB]
    kA = [IR.idx_ir(s) for s in tA]
    pairs = []
    for tau in model.assignments(sorted(set(kB))):
        tauA = {}
        ok = True
        for a_, b_, sp in zip(kA, kB, spins):
            o = model.orb(model.spatial(tau[b_]), sp)
            if tauA.setdefault(a_, o) != o:
                ok = False
        if not ok:
            continue
        try:
            pairs.append((len(pairs), expr_value(irA, model, val, tauA), expr_value(irB, model, val, tau)))
        except Undefined:
            continue
    out.encode_s = time.time() - t0
    out.n_assignments = len(pairs)
    if not pairs:
        out.status = "skipped"
        return out
    v = check_equal(pairs, vars_, timeout_ms=TIMEOUT, seed=seed())
    out.queries, out.solver_s = 1, v.solver_s
    out.stage2 = int(v.stage == 2)
    if v.status == "unsat":
        out.unsat, out.status = 1, "equal"
    elif v.status == "sat":
        out.sat, out.status = 1, "differ"
        out.witness = {"model_space": model.tag, "stage": v.stage,
                       "values": {vars_.describe(k): str(x) for k, x in v.model.items() if x != 0},
                       "note": "restricted variant (replayed by direct evaluation of both monomial lists)"}
        # replay: evaluate both monomial lists with the model values
        from vlib.replay import NumericValues
        num = NumericValues(vars_, v.model)
        lab = v.which if v.which is not None else 0
        va, vb = num.ml(pairs[lab][1]), num.ml(pairs[lab][2])
        if (va - vb).simplify() == 0:
            from vlib.tv import HarnessError
            raise HarnessError("restricted: solver model does not reproduce")
        out.witness.update(value_A=str(va), value_B=str(vb))
    else:
        out.unknown, out.status = 1, "unknown"
    return out


def run_blocks(item):
    kind, sd = item
    rng = random.Random(sd)
    from adcgen import Expr, Intermediates
    from adcgen.indices import get_symbols
    from adcgen.spatial_orbitals import allowed_spin_blocks
    res = {"item": item, "status": "equal"}
    if kind == "itmd":
        avail = Intermediates().available
        names = [n for n in avail if n not in ("t4_2", "t2_3", "t1_3", "p0_3_ov")]
        name = names[sd % len(names)]
        it = avail[name]
        tstr = "".join(it.default_idx)
        try:
            blocks = it.allowed_spin_blocks
        except RuntimeError as exc:
            # documented: only works for closed expressions (e.g. not with the Fock matrix)
            return dict(res, status="skipped", note=str(exc)[:80], **{"in": f"Intermediates().{name}.allowed_spin_blocks"})
        # fully expanded definition: integrals and orbital energies only
        e = Expr(expand_numer(sympify(it.expand_itmd(fully_expand=True).sympy)))
        T = get_symbols(tstr)
        res["in"] = f"Intermediates().{name}.allowed_spin_blocks"
    elif kind == "ladder":
        # V without target indices between two amplitudes that carry the targets i j a b:
        # the search for a valid spin combination has to back-track over the first choices
        from itertools import permutations
        from adcgen.sympy_objects import AntiSymmetricTensor, Amplitude
        i, j, k, l = get_symbols("ijkl")
        a, b, c, d = get_symbols("abcd")
        amps = [(((a, b), (k, l)), ((c, d), (i, j))), (((a, c), (i, k)), ((b, d), (j, l))),
                (((a, c), (k, l)), ((b, d), (i, j))), (((a, b), (i, k)), ((c, d), (j, l)))]
        fam = [(am, pm) for am in amps for pm in permutations((k, l, c, d))]
        am, pm = fam[sd % len(fam)]
        nm1, nm2 = rng.choice([("t1", "t1"), ("t1", "t2"), ("t2", "t1cc")])
        raw = (AntiSymmetricTensor("V", pm[:2], pm[2:]) * Amplitude(nm1, *am[0]) * Amplitude(nm2, *am[1]))
        T = [i, j, a, b]
        if raw is S.Zero:
            return {"status": "skipped", "item": item}
    else:
        try:
            raw, T = gen_expr(rng, closed=True)
        except RuntimeError:
            return {"status": "skipped", "item": item}
    if kind != "itmd":
        if raw is S.Zero or not consistent_bks(raw) or not T:
            return {"status": "skipped", "item": item}
        e = Expr(raw)
        if any(set(t.target) != set(T) for t in e.terms):
            return {"status": "skipped", "item": item}
        tstr = "".join(s.name for s in T)
        try:
            blocks = allowed_spin_blocks(e.copy(), tstr)
        except (RuntimeError, IndexError) as exc:
            # documented: only works for closed expressions (all spin blocks known)
            return dict(res, status="skipped", note=str(exc)[:80])
        res["in"] = f"allowed_spin_blocks({e}, '{tstr}')"
    res["out"] = str(blocks)
    n = len(tstr.replace(",", ""))
    all_blocks = ["".join(b) for b in product("ab", repeat=len(T))]
    missing = [b for b in all_blocks if b not in blocks]
    res["n_missing"] = len(missing)
    tot = {"queries": 0, "unsat": 0, "sat": 0, "unknown": 0, "stage2": 0, "solver_s": 0.0, "encode_s": 0.0}
    nv = sum(1 for s in T if s.space == "virt")
    no = sum(1 for s in T if s.space == "occ")
    model = Model(2 if no <= 2 else 1, 2 if nv <= 2 else 1, spin=True)
    rng.shuffle(missing)
    for b in missing[:6]:
        tB = get_symbols(tstr, b)
        # the expression at this spin block: relabel the targets
        A = e.sympy.xreplace(dict(zip(T, tB)))
        oc = compare(A, S.Zero, tB, model, timeout_ms=TIMEOUT, seed=seed(),
                     valuation_factory=spin_valuation_factory(False))
        for k in tot:
            tot[k] += getattr(oc, k)
        if oc.status != "equal":
            res["status"] = oc.status
            res["witness"] = dict(oc.witness or {}, block=b)
            break
    res.update(tot)
    res["model"] = model.tag
    res["nontrivial"] = bool(missing)
    return res


def main():
    global TIMEOUT
    ap = argparse.ArgumentParser()
    ap.add_argument("--tier", default="quick")
    ap.add_argument("--replay")
    a = ap.parse_args()
    if a.replay:
        import json
        p = json.load(open(a.replay))
        fn = run_integrate if p["part"] == "integrate" else run_blocks
        r = fn(tuple(p["item"]))
        print(json.dumps({k: r.get(k) for k in ("status", "in", "target", "spin", "mode", "out", "witness")},
                         indent=1, default=str))
        return 1 if r.get("status") == "differ" else 0
    quick = a.tier == "quick"
    TIMEOUT = 30000 if quick else 180000
    run = Run("C15", a.tier, "translation_validation")
    from concurrent.futures import ThreadPoolExecutor
    from vlib.ch_c15 import ch_conditions
    conds = ch_conditions(a.tier)
    if quick:
        conds = [c for c in conds if "ladder" in c.name or "reach" in c.name]
    fut = ThreadPoolExecutor(max_workers=1).submit(chrun.run_conditions, conds, "", 8)
    base = seed() * 1000003 + 1500
    modes = ["integrate", "plain", "expand_eri", "restricted", "restricted_sym"]
    n = 250 if quick else 3750
    items = [(base + k, modes[k % 5]) for k in range(n)]
    results = pmap(run_integrate, items, limit=200 if quick else 900)
    nb = 150 if quick else 1500
    bitems = [("expr" if k % 3 else "itmd", base + 9000 + k) for k in range(nb)]
    bitems += [("ladder", base + 9500 + 7 * k) for k in range(40 if quick else 96)]
    bres = pmap(run_blocks, bitems, limit=300 if quick else 1200)
    for part, rs in (("integrate", results), ("blocks", bres)):
        for r in rs:
            st = r.get("status")
            it0 = r.get("item") or ("?", "?")
            sub = f"{part}/{r.get('mode') or (it0[1] if part == 'integrate' else it0[0])}"
            run.add_outcome(sub, r, sample={"in": r.get("in", "")[:250], "target": r.get("target"),
                                           "spin": r.get("spin"), "mode": r.get("mode"),
                                           "out": (r.get("out") or "")[:300], "model": r.get("model"), "verdict": st}
                            if st == "equal" and r.get("nontrivial") else None,
                            distinct_key=(part, r.get("in"), r.get("target"), r.get("spin"), r.get("mode")),
                            nontrivial=bool(r.get("nontrivial")))
            if st == "differ":
                pre = "restricted-merged-blocks:" if r.get("mode") == "restricted_sym" else ""
                run.violation(f"{pre}{part}:{r.get('in')}|{r.get('target')}|{r.get('spin')}|{r.get('mode')}",
                              f"{part} ({r.get('mode')}): {r.get('in', '')[:200]} target {r.get('target')} spin {r.get('spin')} -> {(r.get('out') or '')[:200]}",
                              {"part": part, "item": list(r["item"]), "input": r.get("in"), "target": r.get("target"),
                               "spin": r.get("spin"), "mode": r.get("mode"), "output": r.get("out"),
                               "witness": r.get("witness")})
            if st == "error" and "HarnessError" in r.get("error", ""):
                run.harness_error(r["error"])
    for c in chrun.record(run, "e3/valid_combination", fut.result()):
        run.violation(f"crosshair:{c.name}:{getattr(c, 'call', '')}",
                      f"CrossHair counterexample for {c.name}: {getattr(c, 'call', '')} ({c.replayed})",
                      {"condition": c.name, "call": getattr(c, "call", None), "message": c.message[-500:]})
    run.cov["functions_encoded"] = [
        {"function": "adcgen.spatial_orbitals._has_valid_combination (as it is) [CrossHair: three tensors, two candidate spin maps each, topologies triangle / chain / ladder; spins of the first tensor's candidates concrete per condition, all other spins symbolic; reference: existence of a contradiction-free selection]"},
        {"function": "integrate_spin, transform_to_spatial_orbitals, allowed_spin_blocks, Obj.allowed_spin_blocks, expand_antisym_eri, RegisteredIntermediate.allowed_spin_blocks (run concretely; spin-orbital input and spin-labelled output encoded with shared unknowns)",
         "source_sha": driver.src_hash(*FILES)}]
    run.cov["bounds"] = {
        "expressions": "1-2 terms of 1-3 tensors (V, t amplitudes, ADC vectors, unknown tensors, deltas; restricted: V and symbolic denominators; restricted_sym: V, t, f, Y, c), <= 3 contracted, <= 3 targets in random order, random target spins",
        "models": "2o2v / 1o2v / 2o1v / 1o1v spatial x {alpha, beta}",
        "blocks": "expression-level allowed_spin_blocks and every registered intermediate except third order / quadruples: up to 6 non-reported blocks each shown identically zero",
        "shapes": n + nb, "z3_timeout_ms": TIMEOUT}
    run.cov["rule"] = "seeded generator; non-trivial = non-zero output / at least one non-reported block; distinct = distinct (input, target, spin, mode)"
    run.assumptions += [
        "valuation spin: <pq||rs> from symbolic Coulomb integrals with 8-fold symmetry, t-amplitudes spin conserving, every other tensor unrestricted (as the library treats unknown tensors)",
        "restricted=True, mode 'restricted': expressions of integrals and symbolic denominators (the supported use), integrals / energies depend on the spatial orbital only",
        "restricted=True, mode 'restricted_sym': expressions that keep amplitude / Fock / ADC-vector / unknown symbols, valued in the property's restricted model (entries vanish on non-spin-conserving blocks and are invariant under the global alpha<->beta flip); disagreements there are the known finding C15-restricted-merged-blocks (the beta->alpha renaming merges spin blocks of one symbol)",
    ]
    sys.exit(run.finish())


if __name__ == "__main__":
    main()
