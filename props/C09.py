"""
C09  Kronecker-delta evaluation preserves the value and keeps index information.

E1: the real `adcgen.func.evaluate_deltas` is run on generated products with
1-4 deltas (chains/stars over occ/virt/general, spin-labelled and unlabelled
indices; every contracted index sits on at least one non-delta object).  Input
and output are encoded in a *typed* model (an index ranges exactly over the
orbitals of its space and spin), so value equality for all tensor entries and
all target assignments implies that no index was replaced by one carrying less
information and that no target index was lost.
"""
import argparse
import random
import sys

from sympy import Mul, S, Add, Rational

from vlib import driver
from vlib.driver import Run, pmap, seed
from vlib.model import Model
from vlib import ir as IR
from vlib.tv import compare, pick_model, perturb
from vlib.gen import TermGen, POOL, consistent_bks

FILES = ["adcgen/func.py", "adcgen/sympy_objects.py"]
TIMEOUT = 20000


def _sym(name, spin):
    from adcgen.indices import get_symbols
    return get_symbols(name, spin)[0] if spin else get_symbols(name)[0]


def build_case(item):
    kind, sd = item
    rng = random.Random(sd)
    from adcgen.sympy_objects import KroneckerDelta
    from adcgen.indices import Index
    spinmode = {"plain": False, "general": False, "spin": "mixed", "spinall": True}[kind]
    spaces = "ov" if kind == "plain" else "ovg"
    g = TermGen(rng, spaces=spaces, spin=spinmode, n_tensors=(1, 3), max_contracted=4,
                max_target=3, prefactors=True, pool_size=4,
                names=["V", "f", "d", "t1", "t2", "Y", "b", "c", "g"])
    base = g.term()
    idxs = sorted(base.atoms(Index), key=lambda s: (s.name, s.spin))
    explicit = rng.random() < 0.5
    # Einstein mode: an index must not sit twice on the same object
    if not explicit:
        for o in (base.args if isinstance(base, Mul) else (base,)):
            tir = IR.term_ir(o)
            occ = IR.term_indices(tir)
            if len(occ) != len(set(occ)):
                explicit = True
    tir = IR.term_ir(base)
    cnt = {}
    for s in IR.term_indices(tir):
        cnt[s] = cnt.get(s, 0) + 1
    byir = {IR.idx_ir(s): s for s in idxs}
    target = [byir[k] for k, c in cnt.items() if c == 1]
    if explicit and rng.random() < 0.5 and len(idxs) > len(target):
        # promote a repeated index to a target index
        extra = rng.choice([s for s in idxs if s not in target])
        target.append(extra)
    deltas = []
    new_targets = []
    nd = rng.randint(1, 4 if kind != "plain" else 3)
    pool_idx = list(idxs)
    for _ in range(nd):
        a = rng.choice(pool_idx)
        if rng.random() < 0.45:
            # fresh index (becomes a target index) - any compatible space / spin
            sp = rng.choice([a.space[0], "g"] if "g" in spaces else [a.space[0]])
            spn = rng.choice(["", "a", "b"]) if spinmode == "mixed" else \
                (rng.choice("ab") if spinmode else "")
            nm = rng.choice(POOL[sp][:6])
            b = _sym(nm, spn)
            if b in pool_idx:
                continue
            new_targets.append(b)
            pool_idx.append(b)
        else:
            b = rng.choice(pool_idx)
        d = KroneckerDelta(a, b)
        if d is S.Zero or d is S.One:
            continue
        deltas.append(d)
    if not deltas:
        raise RuntimeError("no delta")
    term = Mul(base, *deltas)
    if term is S.Zero:
        raise RuntimeError("zero")
    target = target + new_targets
    if not explicit:
        # recompute the Einstein targets of the full product the way the
        # documentation states it (occurs once in the product)
        tir = IR.term_ir(term)
        c2 = {}
        for s in IR.term_indices(tir):
            c2[s] = c2.get(s, 0) + 1
        allidx = {IR.idx_ir(s): s for s in term.atoms(Index)}
        target = [allidx[k] for k, c in c2.items() if c == 1]
    # precondition: every contracted index on at least one non-delta object
    on_tensor = set(idxs)
    for s in term.atoms(Index):
        if s not in target and s not in on_tensor:
            raise RuntimeError("precondition")
    return term, target, explicit


def build_poly_case(item):
    """a product with a factor that is not expanded, outer * (delta_pq * inner + other): deltas inside
    such a factor are documented not to be evaluated - whatever is done must keep the value"""
    kind, sd = item
    rng = random.Random(sd * 7 + 5)
    from adcgen.sympy_objects import NonSymmetricTensor, KroneckerDelta
    spn = rng.choice("ab") if kind == "polyspin" else ""
    sp = rng.choice("ov")
    p, q, r = [_sym(n, spn) for n in rng.sample(POOL[sp][:5], 3)]
    if kind == "polygen":
        p = _sym(rng.choice(POOL["g"][:3]), "")
    outer = rng.choice([NonSymmetricTensor("c", (p, q)), NonSymmetricTensor("c", (q, r)) * NonSymmetricTensor("b", (p,)),
                        NonSymmetricTensor("c", (p, q)) * NonSymmetricTensor("c", (q, r))])
    inner = rng.choice([NonSymmetricTensor("g", (p,)), NonSymmetricTensor("g", (q,)), NonSymmetricTensor("g", (p, r)),
                        S.One])
    other = rng.choice([NonSymmetricTensor("f2", (p, q)), NonSymmetricTensor("f2", (q,)), NonSymmetricTensor("f2", (r, p))])
    poly = KroneckerDelta(p, q) * inner * rng.choice([1, 2]) + other * rng.choice([1, -1])
    term = Mul(outer, poly) * rng.choice([1, Rational(1, 2)])
    from adcgen.indices import Index
    idxs = sorted(term.atoms(Index), key=lambda s_: s_.name)
    target = [s_ for s_ in idxs if rng.random() < 0.35]
    return term, target, True


def run_case(item):
    from adcgen.func import evaluate_deltas
    from adcgen.indices import Index
    try:
        term, target, explicit = build_poly_case(item) if item[0].startswith("poly") else build_case(item)
    except RuntimeError:
        return {"status": "skipped", "item": item}
    if not consistent_bks(term):
        return {"status": "skipped", "item": item}
    if explicit:
        out = evaluate_deltas(term, target_idx=list(target))
    else:
        out = evaluate_deltas(term)
    res = {"item": item, "in": str(term), "out": str(out), "explicit": explicit,
           "target": " ".join(map(str, target)), "det": []}
    in_idx = term.atoms(Index)
    if not out.atoms(Index) <= in_idx:
        res["det"].append("output contains an index that is not in the input")
    irs = [IR.expr_ir(term), IR.expr_ir(out)]
    Tir = {IR.idx_ir(s) for s in target}
    spin = any(s.spin for s in in_idx)
    cands = ([Model(2, 1, spin=True), Model(1, 1, spin=True)] if spin
             else [Model(3, 2), Model(2, 2), Model(2, 1), Model(1, 1)])
    model = pick_model(irs, Tir, cands, budget=150000)
    oc = compare(term, out, target, model, timeout_ms=TIMEOUT, seed=seed())
    res.update(oc.as_dict())
    res["model"], res["witness"] = model.tag, oc.witness
    res["changed"] = str(out) != str(term)
    if oc.status == "equal" and out is not S.Zero and item[1] % 5 == 0:
        oc2 = compare(term, out * 2, target, model, timeout_ms=TIMEOUT, seed=seed(),
                      replay=False)
        res["guard"] = oc2.status
    return res


def main():
    global TIMEOUT
    ap = argparse.ArgumentParser()
    ap.add_argument("--tier", default="quick")
    ap.add_argument("--replay")
    a = ap.parse_args()
    if a.replay:
        import json
        p = json.load(open(a.replay))
        r = run_case(tuple(p["item"]))
        print(json.dumps({k: r.get(k) for k in ("status", "in", "out", "target", "det", "witness")},
                         indent=1, default=str))
        return 1 if (r.get("status") == "differ" or r.get("det")) else 0
    run = Run("C09", a.tier, "translation_validation")
    n = 960 if a.tier == "quick" else 12000
    TIMEOUT = 20000 if a.tier == "quick" else 120000
    kinds = ["plain", "general", "spin", "general", "spinall", "spin", "general", "plain"]
    base = seed() * 1000003 + 900
    items = [(kinds[k % len(kinds)], base + k) for k in range(n)]
    items += [(["poly", "polygen", "polyspin"][k % 3], base + 70000 + k) for k in range(n // 12)]
    results = pmap(run_case, items, limit=120)
    guards = [0, 0]
    for r in results:
        st = r.get("status")
        kind = r["item"][0] if isinstance(r.get("item"), tuple) else "?"
        sample = {"in": r.get("in", "")[:300], "target": r.get("target"),
                  "explicit_target": r.get("explicit"), "out": r.get("out", "")[:300],
                  "model": r.get("model"), "verdict": st}
        run.add_outcome(f"evaluate_deltas/{kind}", r,
                        sample=sample if st == "equal" and r.get("changed") else None,
                        distinct_key=(r.get("in"), r.get("target")),
                        nontrivial=bool(r.get("changed")))
        if st == "differ":
            run.violation(f"evaluate_deltas:{r['in']}|{r['target']}|{r['explicit']}",
                          f"evaluate_deltas changed the value: {r['in'][:200]} (target {r['target']}) -> {r['out'][:200]}",
                          {"item": list(r["item"]), "api": "adcgen.func.evaluate_deltas",
                           "input": r["in"], "target": r["target"], "output": r["out"],
                           "witness": r["witness"]})
        for d in r.get("det", []):
            run.violation(f"evaluate_deltas-det:{d}:{r['in']}", d,
                          {"item": list(r["item"]), "input": r["in"], "output": r["out"]})
        if st == "error" and "HarnessError" in r.get("error", ""):
            run.harness_error(r["error"])
        if "guard" in r:
            guards[1] += 1
            guards[0] += r["guard"] == "differ"
    run.cov["vacuity_guard"] = {"scaled_outputs_detected": guards[0], "tried": guards[1]}
    if guards[1] and not guards[0]:
        run.harness_error("vacuity guard: no scaled output was distinguishable")
    run.cov["functions_encoded"] = [
        {"function": "adcgen.func.evaluate_deltas (run concretely; input and actual output encoded)",
         "source_sha": driver.src_hash(*FILES)}]
    run.cov["bounds"] = {
        "models": "typed models: 3o2v/2o2v/2o1v/1o1v spin-less, 2o1v/1o1v x {a,b} with spin labels",
        "terms": "1-3 tensors, <=4 contracted, 1-4 deltas between existing or fresh indices, explicit or Einstein targets",
        "shapes": n, "z3_timeout_ms": TIMEOUT}
    run.cov["rule"] = ("seeded generator; non-trivial = evaluate_deltas changed the term; "
                       "distinct = distinct (input, target) pairs")
    run.assumptions += [
        "expression shapes enumerated by a seeded generator, not by the solver",
        "precondition of the property enforced by the generator: each contracted index occurs on a non-delta object",
        "Einstein mode only with indices occurring at most once per object (the library counts per object there)",
    ]
    sys.exit(run.finish())


if __name__ == "__main__":
    main()
