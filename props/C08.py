"""
C08  Index renaming is capture-free and yields the documented names.

E3 (CrossHair, map *shape* symbolic): order_substitutions and the composition
loop of Container.permute, regenerated from /repo source (`is`->`==`,
`Index('p')` -> fresh id); get_lowest_avail_indices and split_idx_string as they
are.
E1 (z3): Expr.substitute_contracted / substitute_with_generic / permute /
subs(order_substitutions(map)) on generated terms: value unchanged for all tensor
entries and target assignments; names / target set / index count compared
directly on the concrete output.
"""
import argparse
import random
import sys

from sympy import S, Mul

from vlib import driver, chrun, srcgen
from vlib.driver import Run, pmap, seed
from vlib.model import Model
from vlib import ir as IR
from vlib.tv import compare, pick_model
from vlib.gen import TermGen, POOL, consistent_bks

FILES = ["adcgen/indices.py", "adcgen/expr_container.py"]
TIMEOUT = 20000
BASE = {"o": "ijklmno", "v": "abcdefgh", "g": "pqrstuvw"}   # documented pool order


def lowest_names(n, used, space):
    """Independent re-statement of 'the lowest available names': base letters
    in pool order, then the same letters with suffix 1, 2, ..."""
    out, suffix = [], 0
    while len(out) < n:
        for ch in BASE[space]:
            nm = ch if suffix == 0 else f"{ch}{suffix}"
            if nm not in used and len(out) < n:
                out.append(nm)
        suffix += 1
    return out


def _targets(rng, spaces, nmax, spin):
    from adcgen.indices import get_symbols
    out, seen = [], set()
    for _ in range(rng.randint(0, nmax)):
        sp = rng.choice(spaces)
        nm = rng.choice(POOL[sp][:5])
        sn = rng.choice("ab") if spin else ""
        if (nm, sn) in seen:
            continue
        seen.add((nm, sn))
        out.append(get_symbols(nm, sn)[0] if sn else get_symbols(nm)[0])
    return out


def run_minimize(item):
    """indices.minimize_tensor_indices (used by remove_tensor, derivative and the factorisation of
    intermediates) on index tuples with mixed spaces and spins: the returned names are the lowest
    non-target names per space and spin (direct), no permutation touches a target index (direct),
    and renaming the tensor while permuting the rest of the term keeps the contraction's value (z3)."""
    op, sd = item
    rng = random.Random(sd)
    from adcgen.indices import Index, get_symbols, minimize_tensor_indices
    from adcgen.sympy_objects import NonSymmetricTensor
    spin_mode = rng.random() < 0.7

    def sym(nm, spn):
        return get_symbols(nm, spn)[0] if spn else get_symbols(nm)[0]
    idx = []
    for _ in range(rng.randint(2, 4)):
        if idx and rng.random() < 0.15:
            idx.append(rng.choice(idx))
            continue
        sp = rng.choice("ov")
        idx.append(sym(rng.choice(POOL[sp][:7]), rng.choice("ab") if spin_mode else ""))
    targets = {}
    tsyms = []
    for sp, full in (("o", "occ"), ("v", "virt")):
        for spn in ("ab" if spin_mode else ("",)):
            names = [nm for nm in POOL[sp][:4] if rng.random() < 0.35]
            if names or rng.random() < 0.5:
                targets[(full, spn)] = names
                tsyms += [sym(nm, spn) for nm in names]
    res = {"item": item, "in": f"minimize_tensor_indices({tuple(idx)}, {targets})", "target": " ".join(map(str, tsyms)),
           "det": []}
    out, perms = minimize_tensor_indices(tuple(idx), {k: list(v) for k, v in targets.items()})
    res["out"] = f"{out}, {list(perms)}"
    res["perms"] = str(list(perms))

    def is_target(s_):
        return s_.name in targets.get(s_.space_and_spin, [])
    # the transpositions applied one after another reproduce the returned indices
    cur = list(idx)
    for pq in perms:
        p_, q_ = pq
        if is_target(p_) or is_target(q_):
            res["det"].append(f"the permutation {pq} contains a target index")
        cur = [q_ if x is p_ else p_ if x is q_ else x for x in cur]
    if tuple(cur) != tuple(out):
        res["det"].append(f"the permutations give {tuple(cur)}, returned {tuple(out)}")
    if len(set(out)) != len(set(idx)):
        res["det"].append("indices were merged")
    # documented names: lowest names that are no target indices, per space and spin, in order
    expect, pools = {}, {}
    for s_ in idx:
        if is_target(s_) or s_ in expect:
            continue
        key = s_.space_and_spin
        if key not in pools:
            pools[key] = lowest_names(len(idx), set(targets.get(key, [])), s_.space[0])
        expect[s_] = sym(pools[key].pop(0), s_.spin)
    want = tuple(expect.get(s_, s_) for s_ in idx)
    if want != tuple(out):
        res["det"].append(f"not the lowest non-target names: expected {want}")
    # value: b(tensor indices) * c(all indices), the rest of the term permuted along
    uniq = list(dict.fromkeys(idx))
    rest_idx = uniq + [t_ for t_ in tsyms if t_ not in uniq]
    extra = [s_ for s_ in out if s_ not in rest_idx]
    A = NonSymmetricTensor("b", tuple(idx)) * NonSymmetricTensor("c", tuple(rest_idx))
    rest_new = list(rest_idx)
    for p_, q_ in perms:
        rest_new = [q_ if x is p_ else p_ if x is q_ else x for x in rest_new]
    B = NonSymmetricTensor("b", tuple(out)) * NonSymmetricTensor("c", tuple(rest_new))
    tgt = [t_ for t_ in tsyms if t_ in rest_idx]
    irs = [IR.expr_ir(A), IR.expr_ir(B)]
    Tir = {IR.idx_ir(s_) for s_ in tgt}
    cands = ([Model(2, 2, spin=True), Model(1, 1, spin=True)] if spin_mode
             else [Model(3, 3), Model(2, 2), Model(2, 1), Model(1, 1)])
    model = pick_model(irs, Tir, cands, budget=150000)
    oc = compare(A, B, tgt, model, timeout_ms=TIMEOUT, seed=seed())
    res.update(oc.as_dict())
    res["model"], res["witness"] = model.tag, oc.witness
    return res


def run_case(item):
    if item[0] == "minimize":
        return run_minimize(item)
    op, sd = item
    rng = random.Random(sd)
    from adcgen import Expr
    from adcgen.indices import Index, Indices, order_substitutions, get_symbols
    spin = rng.random() < 0.25
    spaces = rng.choice(["ov", "ov", "ovg"])
    g = TermGen(rng, spaces=spaces, spin=spin, n_tensors=(2, 3), max_contracted=5,
                pool_size=9)
    T = _targets(rng, spaces, 3, spin)
    try:
        term = g.term_with_target(T, repeat_target=0.2)
    except RuntimeError:
        return {"status": "skipped", "item": item}
    if not consistent_bks(term):
        return {"status": "skipped", "item": item}
    e = Expr(term, target_idx=T)
    res = {"item": item, "in": str(e), "target": " ".join(map(str, T)), "det": []}
    t0 = e.terms[0]
    contracted_before = list(t0.contracted)
    n_idx_before = len(set(term.atoms(Index)))
    if op == "lowest":
        out = e.copy().substitute_contracted()
        # documented names: lowest unused per space and spin
        by = {}
        for s in contracted_before:
            by.setdefault((s.space[0], s.spin), []).append(s)
        expected = set()
        for (sp, spn), lst in by.items():
            used = {s.name for s in T if s.space[0] == sp and s.spin == spn}
            for nm in lowest_names(len(lst), used, sp):
                expected.add((nm, sp, spn))
        got = {(s.name, s.space[0], s.spin) for s in out.sympy.atoms(Index) if s not in T}
        if out.sympy is not S.Zero and got != expected:
            res["det"].append(f"contracted names {sorted(got)} are not the lowest available {sorted(expected)}")
    elif op == "generic":
        reg = Indices()
        before = {(sp, spn, nm) for sp, d in reg._symbols.items()
                  for spn, dd in d.items() for nm in dd}
        out = e.copy().substitute_with_generic()
        for s in out.sympy.atoms(Index):
            if s in T:
                continue
            if (s.space, s.spin, s.name) in before:
                res["det"].append(f"generic name {s} was handed out before")
            if get_symbols(s.name, s.spin)[0] is not s if s.spin else get_symbols(s.name)[0] is not s:
                res["det"].append(f"repeated request for {s} returned another object")
    elif op == "permute":
        allidx = sorted(term.atoms(Index), key=lambda s: (s.space, s.spin, s.name))
        perms = []
        for _ in range(rng.randint(1, 4)):
            x = rng.choice(allidx)
            cands = [y for y in allidx if y.space == x.space and y.spin == x.spin and y is not x]
            if cands:
                perms.append((x, rng.choice(cands)))
        if not perms:
            return {"status": "skipped", "item": item}
        out = e.copy().permute(*perms)
        ref = term
        for p, q in perms:      # one after another, sympy's simultaneous subs
            ref = ref.xreplace({p: q, q: p})
        res["perms"] = str(perms)
        res["ref"] = ref
        if out.sympy != ref:
            # not a verdict: the two may differ by the canonical form of an identically
            # vanishing tensor entry; the z3 comparison below decides
            res["structural_mismatch"] = f"permute{perms} vs the transpositions applied one after another"
    elif op == "subs":
        allidx = sorted(term.atoms(Index), key=lambda s: (s.space, s.spin, s.name))
        m = {}
        kind = rng.choice(["cycle", "chain", "many", "mixed"])
        grp = {}
        for s in allidx:
            grp.setdefault((s.space, s.spin), []).append(s)
        for (sp, spn), lst in grp.items():
            extra = [get_symbols(n, spn)[0] if spn else get_symbols(n)[0]
                     for n in POOL[sp[0]][:9]]
            extra = [x for x in extra if x not in lst]
            rng.shuffle(lst)
            if kind == "cycle" and len(lst) >= 2:
                k = rng.randint(2, len(lst))
                for n_ in range(k):
                    m[lst[n_]] = lst[(n_ + 1) % k]
            elif kind == "chain" and len(lst) >= 1:
                k = rng.randint(1, len(lst))
                chain = lst[:k] + [rng.choice(extra)]
                for n_ in range(k):
                    m[chain[n_]] = chain[n_ + 1]
            elif kind == "many" and len(lst) >= 2:
                tgt = rng.choice(lst + extra)
                for s in lst[:rng.randint(2, len(lst))]:
                    if s is not tgt:
                        m[s] = tgt
            else:
                for s in lst:
                    if rng.random() < 0.6:
                        m[s] = rng.choice(lst + extra)
        if not m:
            return {"status": "skipped", "item": item}
        items_ = list(m.items())
        rng.shuffle(items_)
        m = dict(items_)
        out = Expr(term.subs(order_substitutions(m)), target_idx=None)
        ref = term.xreplace(m)
        res["map"] = str(m)
        res["ref"] = ref
        if out.sympy != ref:
            # not a verdict (e.g. -d^{k}_{k} vs d^{k}_{k} for a bra-ket antisymmetric d: both
            # vanish identically); the z3 comparison below decides
            res["structural_mismatch"] = f"ordered substitution list for {m} vs the simultaneous substitution"
    else:
        raise ValueError(op)
    res["out"] = str(out)
    outs = out.sympy
    if op in ("lowest", "generic"):
        if outs is S.Zero and term is not S.Zero:
            res["det"].append("renaming produced zero")
        if not set(T) <= set(outs.atoms(Index)) and set(T) <= set(term.atoms(Index)):
            res["det"].append("a target index disappeared")
        if len(set(outs.atoms(Index))) != n_idx_before:
            res["det"].append(f"number of distinct indices changed {n_idx_before} -> {len(set(outs.atoms(Index)))}")
        A, B, tgt = term, outs, T
    else:
        # compare with the reference built by sympy's simultaneous substitution;
        # every index that occurs is treated as a target (nothing is summed), so
        # the query is about the objects' entries at every assignment
        A, B = res.pop("ref"), outs
        tgt = sorted(A.atoms(Index) | B.atoms(Index), key=lambda s: (s.name, s.spin))
    if A is S.Zero and B is S.Zero:
        res["status"] = "equal"
        res["trivial"] = True
        return res
    irs = [IR.expr_ir(A), IR.expr_ir(B)]
    Tir = {IR.idx_ir(s) for s in tgt}
    cands = ([Model(2, 2, spin=True), Model(1, 1, spin=True)] if spin
             else [Model(3, 3), Model(2, 2), Model(2, 1), Model(1, 1)])
    model = pick_model(irs, Tir, cands, budget=150000)
    oc = compare(A, B, tgt, model, timeout_ms=TIMEOUT, seed=seed())
    res.update(oc.as_dict())
    res["model"], res["witness"] = model.tag, oc.witness
    return res


# ----------------------------------------------------------------------------
# E3: CrossHair harnesses
# ----------------------------------------------------------------------------
from vlib.ch_c08 import ch_conditions, PRELUDE  # noqa: E402


def main():
    global TIMEOUT
    ap = argparse.ArgumentParser()
    ap.add_argument("--tier", default="quick")
    ap.add_argument("--replay")
    a = ap.parse_args()
    if a.replay:
        import json
        p = json.load(open(a.replay))
        r = run_case(tuple(p["item"]))
        print(json.dumps({k: r.get(k) for k in ("status", "in", "out", "target", "det", "witness")},
                         indent=1, default=str))
        return 1 if (r.get("status") == "differ" or r.get("det")) else 0
    run = Run("C08", a.tier, "translation_validation")
    TIMEOUT = 20000 if a.tier == "quick" else 120000
    # E3 in the background (threads running subprocesses) while E1 runs
    from concurrent.futures import ThreadPoolExecutor
    conds = ch_conditions(a.tier)
    ex = ThreadPoolExecutor(max_workers=1)
    fut = ex.submit(chrun.run_conditions, conds, PRELUDE, 8)
    n = 240 if a.tier == "quick" else 4000
    ops = ["lowest", "generic", "permute", "subs"]
    base = seed() * 1000003 + 800
    items = [(ops[k % 4], base + k) for k in range(n)]
    items += [("minimize", base + 50000 + k) for k in range(n // 3)]
    results = pmap(run_case, items, workers=8 if a.tier == "quick" else 12, limit=120)
    for r in results:
        st = r.get("status")
        op = r["item"][0] if isinstance(r.get("item"), tuple) else "?"
        sample = {"op": op, "in": r.get("in", "")[:250], "target": r.get("target"),
                  "out": r.get("out", "")[:250], "map": r.get("map") or r.get("perms"),
                  "model": r.get("model"), "verdict": st}
        run.add_outcome(f"e1/{op}", r, sample=sample if st == "equal" and not r.get("trivial") else None,
                        distinct_key=(op, r.get("in"), r.get("map") or r.get("perms")),
                        nontrivial=not r.get("trivial"))
        if st == "differ":
            run.violation(f"{op}:{r['in']}|{r.get('map') or r.get('perms')}",
                          f"{op} changed the value of {r['in'][:200]}",
                          {"item": list(r["item"]), "api": op, "input": r["in"],
                           "output": r["out"], "witness": r["witness"]})
        for d in r.get("det", []):
            run.violation(f"{op}-det:{d[:60]}:{r['in']}", d,
                          {"item": list(r["item"]), "api": op, "input": r["in"],
                           "output": r.get("out")})
        if st == "error" and "HarnessError" in r.get("error", ""):
            run.harness_error(r["error"])
    conds = fut.result()
    for c in chrun.record(run, "e3/crosshair", conds):
        run.violation(f"crosshair:{c.name}:{getattr(c, 'call', '')}",
                      f"CrossHair counterexample for {c.name}: {getattr(c, 'call', '')} ({c.replayed})",
                      {"condition": c.name, "call": getattr(c, "call", None),
                       "message": c.message[-600:]})
    run.cov["functions_encoded"] = [
        {"function": "adcgen.indices.order_substitutions (regenerated from source: is->==, Index('p')->fresh id) [CrossHair]"},
        {"function": "adcgen.expr_container.Container.permute composition loop (regenerated, final subs cut) [CrossHair]"},
        {"function": "adcgen.indices.get_lowest_avail_indices, split_idx_string (as they are) [CrossHair]"},
        {"function": "Expr.substitute_contracted / substitute_with_generic / permute, order_substitutions+subs (run concretely, outputs encoded) [z3]",
         "source_sha": driver.src_hash(*FILES)}]
    run.cov["bounds"] = {
        "crosshair": f"index maps with <= {3 if a.tier == 'quick' else 4} entries over {5 if a.tier == 'quick' else 6} ids; <= {3 if a.tier == 'quick' else 4} transpositions over 4 ids; n <= 3 and <= 3 used names from an 8-name pool; index strings of <= {4 if a.tier == 'quick' else 5} chars over 'ia12'",
        "e1": "2-3 tensors, <= 5 contracted, <= 3 targets (explicit), models <= 3o3v (spin: 2o2v x ab); minimize_tensor_indices: 2-4 tensor indices over occ / virt x (spinless | alpha / beta mixed), <= 4 target names per space and spin",
        "shapes": n, "z3_timeout_ms": TIMEOUT}
    run.cov["rule"] = "seeded generator; non-trivial = non-zero expression; distinct = distinct (op, input, map)"
    run.assumptions += [
        "registry history: only the history of this process is exercised by the E1 part (see C19 for histories)",
        "names / target set / index count / identity of repeated requests are direct comparisons on the concrete output",
        "CrossHair stubs: indices are ints, `is` between indices is `==`, the temporary index is a fresh negative int",
    ]
    sys.exit(run.finish())


if __name__ == "__main__":
    main()
