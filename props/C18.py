"""
C18  Printing an expression and importing the text restores the expression.

For each generated / derived expression e:  e2 = import_from_sympy_latex(str(e))
with the same assumptions re-applied.  Value conjunct: z3 decides
value(e2) = value(e) for all tensor entries and target assignments (symmetry per
tensor name taken from both, a class change is reported as a kind difference).
Kind and text conjuncts have no quantifier left once e is fixed: direct
comparison.  Operator expressions are compared structurally.
"""
import argparse
import random
import sys

from sympy import Add, Mul, S, Rational, sqrt, Pow
from sympy.physics.secondquant import F, Fd, NO

from vlib import driver
from vlib import ir as IR
from vlib.driver import Run, pmap, seed
from vlib.model import Model
from vlib.poly import Unsupported
from vlib.tv import compare, pick_model, default_target
from vlib.gen import TermGen, POOL

FILES = ["adcgen/func.py", "adcgen/expr_container.py", "adcgen/sympy_objects.py",
         "adcgen/indices.py", "adcgen/tensor_names.py"]
TIMEOUT = 20000


def kinds(expr):
    from adcgen.sympy_objects import SymbolicTensor, KroneckerDelta
    out = []
    for t in expr.atoms(SymbolicTensor):
        out.append((type(t).__name__, t.name, int(getattr(t, "bra_ket_sym", 0) or 0)))
    return sorted(set(out))


def gen_expr(kind, sd):
    rng = random.Random(sd)
    from adcgen import Expr
    from adcgen.indices import get_symbols
    from adcgen.sympy_objects import NonSymmetricTensor
    ass = {}
    if kind == "lib":
        from adcgen import Operators, GroundState, IntermediateStates, SecularMatrix
        variant = rng.choice(["mp", "re"])
        h = Operators(variant)
        gs = GroundState(h, first_order_singles=rng.random() < 0.3)
        which = rng.choice(["energy", "amp", "psi", "precursor", "matrix", "expec", "symdenom", "real",
                            "operator", "itmd"])
        if which == "itmd":
            from adcgen import Intermediates
            nm = rng.choice(["t2eri_A", "t2eri_B", "t2eri_A", "t2_2", "p0_2_oo", "t2eri_4"])
            ex = Intermediates().available[nm].expand_itmd(fully_expand=False).expand()
            return ex.sympy, dict(ex.assumptions), "lib:itmd"
        if which == "operator":
            # operator matrices with unequal numbers of creators / annihilators: tensors with
            # only upper or only lower indices
            nc, na = rng.choice([(0, 1), (1, 0), (2, 0), (0, 2), (1, 2), (2, 1), (1, 1), (2, 2), (0, 3)])
            e = h.operator(nc, na)[0]
        elif which == "energy":
            e = gs.energy(rng.choice([1, 2]))
        elif which == "amp":
            e = gs.amplitude(rng.choice([1, 2]), *rng.choice([("ph", "ia"), ("pphh", "ijab")]))
            ass["target_idx"] = None
        elif which == "psi":
            e = gs.psi(rng.choice([1, 2]), rng.choice(["bra", "ket"]))
        elif which == "precursor":
            isr = IntermediateStates(gs, rng.choice(["pp", "ip", "ea"]))
            sp = isr.min_space[0]
            idx = {"ph": "ia", "h": "i", "p": "a"}[sp]
            e = isr.precursor(rng.choice([0, 1, 2]), sp, rng.choice(["bra", "ket"]), idx)
        elif which == "matrix":
            gs = GroundState(Operators("mp"))
            v = rng.choice(["pp", "ip"])
            isr = IntermediateStates(gs, v)
            m = SecularMatrix(isr)
            blk, idx = {"pp": ("ph,ph", "ia,jb"), "ip": ("h,h", "i,j")}[v]
            e = m.isr_matrix_block(rng.choice([0, 1, 2]), blk, idx)
        elif which == "expec":
            e = gs.expectation_value(rng.choice([1, 2]), 1)
        elif which == "symdenom":
            ex = Expr(gs.amplitude(2, "ph", "ia") if variant == "mp" else
                      GroundState(Operators("mp")).amplitude(2, "ph", "ia"), target_idx="ia")
            ex = ex.expand().use_symbolic_denominators()
            return ex.sympy, dict(ex.assumptions), "lib:symdenom"
        else:
            ex = Expr(gs.energy(2), real=True)
            return ex.sympy, dict(ex.assumptions), "lib:real"
        from sympy import sympify
        return sympify(e).expand(), ass, f"lib:{which}"
    # generated terms
    spin = {"spin": "mixed", "plain": False, "denom": False, "ops": False, "coulomb": True}[kind]
    # only objects whose class follows from the name and whose bra-ket symmetry
    # follows from the assumptions can be restored from text
    names = ["V", "f", "t1", "t2", "t1cc", "Y", "X", "g", "b", "c", "d0"]
    excl = ()
    if kind == "coulomb":
        names = ["v", "f", "t1", "Y", "d0"]
    if kind == "denom":
        names = ["V", "f", "t1", "t2", "D", "Y", "d0", "X"]
    g = TermGen(rng, spaces="ovg" if kind != "coulomb" else "ov", spin=spin, n_tensors=(1, 3),
                max_contracted=5, max_target=4, pool_size=9, names=names, exclude=excl,
                exponents=0.15, symbols=0.2, deltas=(0, 1))
    terms = []
    for _ in range(rng.randint(1, 3)):
        t = g.term()
        if kind == "denom" and rng.random() < 0.8:
            i, j, a, b = get_symbols("ijab")
            e_ = lambda s: NonSymmetricTensor("e", (s,))  # noqa
            den = rng.choice([e_(a) - e_(i), e_(a) + e_(b) - e_(i) - e_(j),
                              2 * e_(i) - 2 * e_(a)])
            t = t / den ** rng.choice([1, 1, 2])
            if rng.random() < 0.3:
                t = t * (e_(i) + e_(j))
        if kind in ("plain", "spin") and rng.random() < 0.2:
            # a tensor with only upper or only lower indices
            from adcgen.sympy_objects import AntiSymmetricTensor
            sp_ = rng.choice(["a", "b"]) if kind == "spin" else ""
            nm = rng.sample("ijk" if rng.random() < 0.5 else "abc", rng.choice([1, 2]))
            one = get_symbols(nm, sp_ * len(nm)) if sp_ else get_symbols(nm)
            t = t * (AntiSymmetricTensor("d", (), tuple(one)) if rng.random() < 0.5
                     else AntiSymmetricTensor("d", tuple(one), ()))
        if kind == "plain" and rng.random() < 0.12:
            from sympy import Float
            t = t * Float(rng.choice(["0.5", "0.25", "1.5", "2.0"]))     # float prefactors (t2eri_A/B use them)
        if kind == "ops":
            k = rng.choice([1, 2])
            o = get_symbols(rng.sample("ijk", k))
            v = get_symbols(rng.sample("abc", k))
            ops = Mul(*[Fd(s) for s in v]) * Mul(*[F(s) for s in o])
            if rng.random() < 0.5:
                ops = NO(ops)
            t = t * ops
        terms.append(t)
    e = Add(*terms)
    if rng.random() < 0.3 and kind in ("plain", "spin"):
        ass["real"] = True
    if rng.random() < 0.3 and kind == "plain":
        ass["sym_tensors"] = ["d0"]
    elif rng.random() < 0.2 and kind == "plain":
        ass["antisym_tensors"] = ["d0"]
    if kind == "coulomb":
        ass["sym_tensors"] = ["v"]
        ass["real"] = True
    if kind == "denom":
        ass["antisym_tensors"] = ["D"]
    return e.expand() if kind != "denom" else e, ass, kind


def run_case(item):
    kind, sd = item
    from adcgen import Expr
    from adcgen.func import import_from_sympy_latex
    from adcgen.indices import Index
    try:
        raw, ass, tag = gen_expr(kind, sd)
    except RuntimeError:
        return {"status": "skipped", "item": item}
    res = {"item": item, "tag": tag, "det": []}
    try:
        e = Expr(raw, **ass)
    except Exception as exc:
        return {"status": "skipped", "item": item, "note": f"{type(exc).__name__}"}
    if e.sympy is S.Zero:
        return {"status": "skipped", "item": item}
    text = str(e)
    res["in"] = text[:400]
    try:
        imp = import_from_sympy_latex(text)
        e2 = Expr(imp.sympy, **e.assumptions)
    except Exception as exc:
        res.update(status="differ", out=f"raised {type(exc).__name__}: {exc}",
                   witness={"raised": f"{type(exc).__name__}: {exc}"}, crash=True)
        return res
    text2 = str(e2)
    res["out"] = text2[:400]
    if text2 != text:
        res["det"].append("printing the imported expression gives a different text")
    k1, k2 = kinds(e.sympy), kinds(e2.sympy)
    if k1 != k2:
        res["det"].append(f"tensor kinds differ: {sorted(set(k1) - set(k2))} -> {sorted(set(k2) - set(k1))}")
    has_ops = bool(e.sympy.atoms(F) | e.sympy.atoms(Fd))
    if has_ops:
        same = (e.sympy - e2.sympy).expand() == 0
        res["status"] = "equal" if same else "differ"
        if not same:
            res["witness"] = {"structural": "imported operator expression differs"}
        res["nontrivial"] = True
        return res
    irs = [IR.expr_ir(e.sympy), IR.expr_ir(e2.sympy)]
    if e.provided_target_idx is not None:
        Tir = {IR.idx_ir(s) for s in e.provided_target_idx}
    else:
        Tir = default_target(irs[:1])
    allobj = {IR.idx_ir(s): s for s in (e.sympy.atoms(Index) | e2.sympy.atoms(Index))}
    # an imported index with the same name/space/spin is a distinct object only
    # if the printed name does not resolve to the registry index (un-registered dummies)
    target = [allobj[k] for k in Tir if k in allobj]
    spin = any(s[2] for s in allobj)
    cands = ([Model(2, 2, spin=True), Model(1, 1, spin=True)] if spin
             else [Model(3, 3), Model(2, 2), Model(2, 1), Model(1, 1)])
    model = pick_model(irs, Tir, cands, budget=200000)
    try:
        oc = compare(e.sympy, e2.sympy, target, model, timeout_ms=TIMEOUT, seed=seed(),
                     val_opts={"explicit_D": None})
    except Unsupported as exc:
        res["status"] = "differ"
        res["witness"] = {"kind": str(exc)}
        return res
    res.update(oc.as_dict())
    res["model"], res["witness"] = model.tag, oc.witness
    res["nontrivial"] = True
    return res


def main():
    global TIMEOUT
    ap = argparse.ArgumentParser()
    ap.add_argument("--tier", default="quick")
    ap.add_argument("--replay")
    a = ap.parse_args()
    if a.replay:
        import json
        p = json.load(open(a.replay))
        r = run_case(tuple(p["item"]))
        print(json.dumps({k: r.get(k) for k in ("status", "in", "out", "det", "witness")},
                         indent=1, default=str))
        return 1 if (r.get("status") == "differ" or r.get("det")) else 0
    quick = a.tier == "quick"
    TIMEOUT = 20000 if quick else 120000
    run = Run("C18", a.tier, "translation_validation")
    n = 480 if quick else 6000
    kinds_ = ["plain", "spin", "denom", "ops", "coulomb", "lib", "plain", "lib"]
    base = seed() * 1000003 + 1800
    items = [(kinds_[k % len(kinds_)], base + k) for k in range(n)]
    results = pmap(run_case, items, limit=600)
    for r in results:
        st = r.get("status")
        kind = r.get("tag", "?").split(":")[0]
        run.add_outcome(f"roundtrip/{kind}", r,
                        sample={"text": r.get("in", "")[:250], "model": r.get("model"), "verdict": st}
                        if st == "equal" else None,
                        distinct_key=r.get("in"), nontrivial=bool(r.get("nontrivial")))
        if st == "differ":
            crash = r.get("crash")
            run.violation(f"roundtrip:{'crash' if crash else 'value'}:{r['in']}",
                          f"import_from_sympy_latex(str(e)) {'raised' if crash else 'changed the value'}: {r['in'][:200]} -> {r.get('out', '')[:200]}",
                          {"item": list(r["item"]), "api": "import_from_sympy_latex(str(Expr))",
                           "input": r["in"], "output": r.get("out"), "witness": r.get("witness")})
        for d in r.get("det", []):
            run.violation(f"roundtrip-det:{d[:40]}:{r['in']}", f"{d}: {r['in'][:200]} -> {r.get('out', '')[:200]}",
                          {"item": list(r["item"]), "input": r["in"], "output": r.get("out"),
                           "deterministic": d})
        if st == "error" and "HarnessError" in r.get("error", ""):
            run.harness_error(r["error"])
    run.cov["functions_encoded"] = [
        {"function": "Expr.__str__ (sympy latex printers of Index/tensors/delta) and adcgen.func.import_from_sympy_latex (run concretely; e and re-imported e2 encoded)",
         "source_sha": driver.src_hash(*FILES)}]
    run.cov["bounds"] = {
        "expressions": "1-3 generated terms of 1-3 tensors (every tensor class, Coulomb v, symbolic denominators D, deltas, symbols, exponent 2, rational/sqrt prefactors, spin-labelled and numbered indices, orbital-energy fractions, operator strings and NO groups) and library results (energies, amplitudes, psi, precursor states, matrix blocks, densities, symbolic-denominator and real variants)",
        "models": "<= 3o3v; spin 2o2v x ab", "shapes": n, "z3_timeout_ms": TIMEOUT}
    run.cov["rule"] = "distinct = distinct printed texts"
    run.assumptions += [
        "only the value conjunct is a solver verdict; text and kind conjuncts are direct comparisons on the concrete output; operator expressions are compared structurally",
        "default tensor-name configuration (other configurations: C19)",
    ]
    sys.exit(run.finish())


if __name__ == "__main__":
    main()
