"""
C13  Orbital-energy fraction algebra and Fock diagonalisation preserve the value.

E1: the real EriOrbenergy operations (split/rebuild, canonicalize_sign,
permute_num, cancel_orb_energy_frac), factor_eri_parts, factor_denom, the
symbolic <-> explicit denominator switches and (block_)diagonalize_fock are run on
generated terms with products / powers of orbital-energy brackets; z3 decides
value equality with the input for all orbital energies and tensor entries.
Identities that need  bracket * (1/bracket) = 1  are decided in stage 2
(denominators cleared per outer monomial, see vlib/smt.py).
"""
import argparse
import random
import sys

from sympy import Add, Mul, S, Rational, Pow

from vlib import driver
from vlib import ir as IR
from vlib.driver import Run, pmap, seed
from vlib.model import Model
from vlib.tv import compare, pick_model
from vlib.gen import TermGen, POOL, consistent_bks
from vlib.poly import Unsupported

FILES = ["adcgen/eri_orbenergy.py", "adcgen/reduce_expr.py", "adcgen/expr_container.py"]
TIMEOUT = 30000
MODELS = [Model(2, 2), Model(2, 1), Model(1, 2), Model(1, 1)]


def _e(s):
    from adcgen.sympy_objects import NonSymmetricTensor
    return NonSymmetricTensor("e", (s,))


def bracket(rng, occ, virt):
    """(e_a + e_b - e_i - e_j) with a random overall sign"""
    no = rng.randint(0, min(2, len(occ)))
    nv = rng.randint(0, min(2, len(virt)))
    if no + nv < 2:           # a bracket holds at least two orbital energies
        no, nv = min(1, len(occ)), min(1, len(virt))
        if no + nv < 2:
            no, nv = min(2, len(occ)), min(2, len(virt))
    if no + nv < 2:
        return None
    o = rng.sample(occ, no)
    v = rng.sample(virt, nv)
    sgn = rng.choice([1, -1])
    return sgn * (Add(*[_e(s) for s in v]) - Add(*[_e(s) for s in o]))


def gen_term(rng, fock=False, spin=False, spaces="ov"):
    from adcgen.indices import Index, get_symbols
    names = ["V", "t1", "t2", "Y", "d0", "c"] + (["f"] if fock else [])
    g = TermGen(rng, spaces=spaces, spin=spin, n_tensors=(1, 3) if not spin else (1, 2),
                max_contracted=4 if not spin else 3, max_target=3,
                names=names, exclude=(), pool_size=5, exponents=0.25 if fock else 0.0)
    rem = g.term()
    idx = sorted(rem.atoms(Index), key=lambda s: (s.name, s.spin))
    occ = [s for s in idx if s.space == "occ"]
    virt = [s for s in idx if s.space == "virt"]
    return rem, occ, virt, idx


def gen_twin(rng):
    """remainder that is (anti)symmetric only under a product of transpositions of contracted
    indices, optionally times a tensor with a target index; the fraction then uses a part of the
    indices only (a transposition may lie completely outside of the denominator)"""
    from adcgen.indices import get_symbols
    from adcgen.sympy_objects import AntiSymmetricTensor, NonSymmetricTensor, Amplitude
    i, j, k, l, a, b, c, d = get_symbols("ijklabcd")
    pat = rng.randrange(8)
    if pat >= 5:
        # joint (anti)symmetry of remainder and denominator under permutations of *target* indices
        # (must not be used to symmetrise the numerator) next to contracted ones
        def V(p, q, r, s_):
            return AntiSymmetricTensor("V", (p, q), (r, s_))
        if pat == 5:
            rem, idx, T = V(i, k, a, b) * V(j, k, a, b), [i, j, k, a, b], [i, j]
        elif pat == 6:
            rem, idx, T = V(i, j, a, b), [i, j, a, b], [i, j, a, b]
        else:
            rem, idx, T = V(i, k, a, c) ** 2, [i, k, a, c], [i, a]
        occ = [s for s in idx if s.space == "occ"]
        virt = [s for s in idx if s.space == "virt"]
        return rem, occ, virt, idx, T
    if pat == 0:
        rem = NonSymmetricTensor("c", (i, k)) * NonSymmetricTensor("c", (j, l))
        idx = [i, j, k, l]
    elif pat == 1:
        rem = Amplitude("Y", (a,), (i,)) * Amplitude("Y", (b,), (j,)) * \
            NonSymmetricTensor("b", (i, j, a, b))
        idx = [i, j, a, b]
    elif pat == 2:
        rem = Amplitude("t1", (c, d), (k, l)) * AntiSymmetricTensor("V", (k, l), (c, d))
        idx = [k, l, c, d]
    elif pat == 3:
        rem = NonSymmetricTensor("c", (i, a)) * NonSymmetricTensor("c", (j, b)) * \
            AntiSymmetricTensor("d0", (a, b), (i, j))
        idx = [i, j, a, b]
    else:
        rem = NonSymmetricTensor("c", (i, k)) * NonSymmetricTensor("c", (j, l)) * \
            NonSymmetricTensor("c", (a, c)) * NonSymmetricTensor("c", (b, d)) * \
            NonSymmetricTensor("b", (i, j, a, b))
        idx = [i, j, k, l, a, b, c, d]
    T = []
    if rng.random() < 0.6:
        sp = rng.choice("ov")
        t = get_symbols("m" if sp == "o" else "e")[0]
        rem = rem * NonSymmetricTensor("g", (t,))
        T = [t]
    occ = [s for s in idx + T if s.space == "occ"]
    virt = [s for s in idx + T if s.space == "virt"]
    return rem, occ, virt, idx + T, T


def gen_fraction(rng, occ, virt, max_brackets=3):
    den = S.One
    nb = rng.randint(1, max_brackets)
    for _ in range(nb):
        b = bracket(rng, occ, virt)
        if b is None or b is S.Zero or b.is_number:
            continue
        den *= b ** rng.choice([1, 1, 1, 2])
    num = S.One
    r = rng.random()
    if r < 0.45 and den is not S.One:
        # numerator = +- content of one (or the sum of two) of the brackets: cancellable
        bases = [(b.args[0] if isinstance(b, Pow) else b) for b in
                 (den.args if isinstance(den, Mul) else (den,))]
        bases = [b for b in bases if isinstance(b, Add)]
        if bases and rng.random() < 0.5:
            num = rng.choice([1, -1, 2]) * Add(*rng.sample(bases, min(len(bases), rng.choice([1, 1, 2]))))
        elif bases:
            # weighted combination of the brackets (every bracket cancels with its own
            # coefficient), optionally with a remainder that cancels nothing
            coefs = rng.sample([1, 2, 3, -2, -3, Rational(1, 2), Rational(3, 2), 4], len(bases))
            num = Add(*[c * b for c, b in zip(coefs, bases)])
            if rng.random() < 0.3 and occ + virt:
                s0 = rng.choice(occ + virt)
                num += rng.choice([1, -1, 2]) * _e(s0)
    elif r < 0.7:
        terms = []
        for s in rng.sample(occ + virt, min(len(occ + virt), rng.randint(1, 4))):
            c = rng.choice([1, 1, 2, Rational(1, 2)])
            terms.append((c if s.space == "occ" else -c) * _e(s))
        num = rng.choice([1, -1]) * Add(*terms)
    return num, den


def targets_of(term):
    tir = IR.term_ir(term)
    cnt = {}
    for s in IR.term_indices(tir):
        cnt[s] = cnt.get(s, 0) + 1
    return {s for s, c in cnt.items() if c == 1}


def run_case(item):
    op, sd = item
    rng = random.Random(sd)
    from adcgen import Expr
    from adcgen.indices import Index
    from adcgen.eri_orbenergy import EriOrbenergy
    from adcgen.reduce_expr import factor_eri_parts, factor_denom
    from adcgen.misc import Inputerror
    try:
        spin = rng.random() < 0.2 and op not in ("factor_eri", "factor_denom")
        if spin and op == "diag_fock" and rng.random() < 0.6:
            spin = "mixed"       # spinless next to spin-labelled indices
        rem, occ, virt, idx = gen_term(rng, fock=op in ("diag_fock", "block_diag_fock"), spin=spin,
                                       spaces="ovg" if op in ("block_diag_fock", "diag_fock") and rng.random() < 0.5 else "ov")
    except RuntimeError:
        return {"status": "skipped", "item": item}
    if not consistent_bks(rem):
        return {"status": "skipped", "item": item}
    Tir = targets_of(rem)
    T = [s for s in idx if IR.idx_ir(s) in Tir]
    twin = None
    rng2 = random.Random(sd * 104729 + 7)
    if op == "permute_num" and rng2.random() < 0.4:
        rem, occ, virt, idx, T = gen_twin(rng2)
        twin = (list(occ), list(virt))
        # the brackets hold a part of the indices only
        occ = rng2.sample(occ, rng2.randint(0, min(2, len(occ))))
        virt = rng2.sample(virt, rng2.randint(0 if len(occ) == 2 else 1, min(2, len(virt))))
    res = {"item": item, "op": op, "det": []}
    val_opts = {}
    refuse = (Inputerror, NotImplementedError, RuntimeError, TypeError)
    try:
        if op in ("split", "canon_sign", "permute_num", "cancel", "sym_denom", "sym_denom_back"):
            num, den = gen_fraction(rng, occ, virt)
            if den is S.One:
                return {"status": "skipped", "item": item}
            if twin is not None and rng2.random() < 0.7:
                # numerator: orbital energies of arbitrary indices of the term
                num = Add(*[rng2.choice([1, 2, -1, Rational(1, 2)]) * _e(s_) for s_ in
                            rng2.sample(twin[0] + twin[1], rng2.randint(1, 3))])
            term = rng.choice([1, Rational(1, 2), -2, Rational(3, 4)]) * num * rem / den
            if T and rng.random() < 0.15:
                # a tensor with negative exponent in the remainder (on target indices only)
                from adcgen.sympy_objects import NonSymmetricTensor
                term = term / NonSymmetricTensor("c", tuple(rng.sample(T, min(len(T), rng.choice([1, 2])))))
            e = Expr(term, target_idx=T)
            res["in"] = str(e)
            if op == "sym_denom":
                out = e.copy().use_symbolic_denominators()
                val_opts = {"explicit_D": "D"}
                # back again
                out2 = out.copy().use_explicit_denominators()
                res["back"] = str(out2)
                res["_extra"] = out2.sympy
            elif op == "sym_denom_back":
                # start from symbolic denominators
                e0 = e.copy().use_symbolic_denominators()
                res["in"] = str(e0)
                out = e0.copy().use_explicit_denominators()
                e = e0
                val_opts = {"explicit_D": "D"}
            else:
                ee = e.copy()
                parts = S.Zero
                only_denom = op == "canon_sign" and rng2.random() < 0.5
                if only_denom:
                    res["op"] = "canon_sign(only_denom=True)"
                for t in ee.terms:
                    eo = EriOrbenergy(t)
                    if op == "split":
                        parts += eo.expr.sympy
                    elif op == "canon_sign":
                        parts += eo.canonicalize_sign(only_denom=only_denom).expr.sympy
                    elif op == "permute_num":
                        parts += eo.permute_num().expr.sympy
                    else:
                        parts += eo.cancel_orb_energy_frac().sympy
                out = Expr(parts, target_idx=T)
        elif op in ("factor_eri", "factor_denom"):
            terms = []
            orphan = op == "factor_eri" and not spin and rng2.random() < 0.25
            from vlib.tv import rename_contracted
            contracted = [s for s in idx if s not in T]
            for _ in range(rng.randint(2, 4)):
                num, den = gen_fraction(rng, occ, virt, max_brackets=2)
                r2 = rem
                if contracted and rng.random() < 0.6:
                    r2, sub = rename_contracted(rem, contracted, rng, POOL, keep=T)
                    num, den = num.xreplace(sub), den.xreplace(sub)
                term_ = rng.choice([1, -1, Rational(1, 2)]) * num * r2 / den
                if orphan and rng2.random() < 0.7:
                    # a contracted index that occurs in the orbital-energy part only
                    from adcgen.indices import Index as _Index
                    used_ = {s_.name for s_ in term_.atoms(_Index)} | {s_.name for s_ in T}
                    sp_ = rng2.choice("ov")
                    free_ = [n_ for n_ in POOL[sp_][:6] if n_ not in used_]
                    if free_:
                        from adcgen.indices import get_symbols as _gs
                        term_ = term_ * rng2.choice([1, 2]) * _e(_gs(rng2.choice(free_))[0])
                terms.append(term_)
            e = Expr(Add(*terms), target_idx=T)
            if orphan:
                res["op"] = "factor_eri(orphan energy index)"
            res["in"] = str(e)
            if e.sympy is S.Zero or e.sympy.is_number:
                return {"status": "skipped", "item": item}
            parts = factor_eri_parts(e.copy()) if op == "factor_eri" else factor_denom(e.copy())
            out = Expr(Add(*[p.sympy for p in parts]), target_idx=T)
            res["n_parts"] = len(parts)
        elif op == "diag_fock":
            if rng.random() < 0.4:
                # a chain of Fock elements with intersecting indices: f_xm f_mn [f_ny] c(...)
                from adcgen.indices import get_symbols
                from adcgen.sympy_objects import AntiSymmetricTensor, NonSymmetricTensor
                sp = rng.choice(["o", "v"])
                used = {s.name for s in idx}
                fresh = [n for n in POOL[sp] if n not in used][:4]
                k = rng.choice([2, 2, 3])
                if len(fresh) > k:
                    ch = get_symbols(fresh[:k + 1])
                    chain = S.One
                    for q in range(k):
                        a_, b_ = (ch[q], ch[q + 1]) if rng.random() < 0.5 else (ch[q + 1], ch[q])
                        chain *= AntiSymmetricTensor("f", (a_,), (b_,)) ** rng.choice([1, 1, 1, 2])
                    r3 = rng2.random()
                    if r3 < 0.3:
                        # both ends are target indices (a matrix power of f): with a diagonal Fock
                        # matrix the result carries a delta of the two ends
                        if rng2.random() < 0.5:
                            chain *= NonSymmetricTensor("c", (ch[1],))
                        T = T + [ch[0], ch[-1]]
                    elif rng.random() < 0.5:
                        chain *= NonSymmetricTensor("c", (ch[0], ch[-1]))      # closed: all contracted
                    else:
                        chain *= NonSymmetricTensor("c", (ch[-1],))           # open: ch[0] is a target
                        T = T + [ch[0]]
                    rem = rem * chain
            e = Expr(rem * rng.choice([1, Rational(1, 2)]), target_idx=T)
            res["in"] = str(e)
            out = e.copy().diagonalize_fock()
            val_opts = {"diag_fock": "f"}
            if set(out.provided_target_idx or ()) != set(T):
                res["det"].append(f"target indices changed: {T} -> {out.provided_target_idx}")
        elif op == "block_diag_fock":
            e = Expr(rem, target_idx=T)
            res["in"] = str(e)
            out = e.copy().block_diagonalize_fock()

            def f_ov(model, U, L):
                return model.is_occ(U[0]) != model.is_occ(L[0])
            val_opts = {"zero_blocks": {"f": f_ov}}
        else:
            raise ValueError(op)
    except refuse as exc:
        return dict(res, status="skipped", note=f"refused: {type(exc).__name__}: {str(exc)[:80]}")
    res["out"] = str(out)
    A, B = e.sympy, out.sympy
    irs = [IR.expr_ir(A), IR.expr_ir(B)]
    Tset = {IR.idx_ir(s) for s in T}
    model = pick_model(irs, Tset, MODELS if not spin else [Model(2, 2, spin=True), Model(1, 1, spin=True)],  # noqa
                       budget=120000)
    try:
        oc = compare(A, B, T, model, timeout_ms=TIMEOUT, seed=seed(), val_opts=val_opts)
    except Unsupported as exc:
        return dict(res, status="skipped", note=str(exc)[:100])
    res.update(oc.as_dict())
    res["witness"], res["model"] = oc.witness, model.tag
    res["nontrivial"] = str(out) != str(e)
    extra = res.pop("_extra", None)
    if extra is not None and oc.status == "equal":
        oc2 = compare(A, extra, T, model, timeout_ms=TIMEOUT, seed=seed(), val_opts=val_opts)
        res["queries"] += oc2.queries
        res["unsat"] += oc2.unsat
        res["sat"] += oc2.sat
        res["stage2"] += oc2.stage2
        if oc2.status != "equal":
            res["status"] = oc2.status
            res["witness"] = dict(oc2.witness or {}, step="explicit(symbolic(expr))")
            res["out"] = res.get("back")
    return res


def main():
    global TIMEOUT
    ap = argparse.ArgumentParser()
    ap.add_argument("--tier", default="quick")
    ap.add_argument("--replay")
    a = ap.parse_args()
    if a.replay:
        import json
        p = json.load(open(a.replay))
        r = run_case(tuple(p["item"]))
        print(json.dumps({k: r.get(k) for k in ("status", "op", "in", "out", "det", "witness")},
                         indent=1, default=str))
        return 1 if (r.get("status") == "differ" or r.get("det")) else 0
    quick = a.tier == "quick"
    TIMEOUT = 30000 if quick else 180000
    run = Run("C13", a.tier, "translation_validation")
    ops = ["split", "canon_sign", "permute_num", "cancel", "factor_eri", "factor_denom",
           "sym_denom", "sym_denom_back", "diag_fock", "block_diag_fock", "cancel", "permute_num"]
    n = 960 if quick else 9000
    base = seed() * 1000003 + 1300
    items = [(ops[k % len(ops)], base + k) for k in range(n)]
    results = pmap(run_case, items, limit=240 if quick else 900)
    for r in results:
        st = r.get("status")
        op = r.get("op") or (r["item"][0] if isinstance(r.get("item"), tuple) else "?")
        run.add_outcome(op, r, sample={"op": op, "in": r.get("in", "")[:250], "out": (r.get("out") or "")[:250],
                                      "model": r.get("model"), "stage2": r.get("stage2"), "verdict": st}
                        if st == "equal" and r.get("nontrivial") else None,
                        distinct_key=(op, r.get("in")), nontrivial=bool(r.get("nontrivial")))
        payload = {"item": list(r["item"]) if isinstance(r.get("item"), tuple) else r.get("item"),
                   "op": op, "input": r.get("in"), "output": r.get("out"), "witness": r.get("witness")}
        if st == "differ":
            run.violation(f"{op}:{r.get('in')}", f"{op} changed the value: {r.get('in', '')[:200]} -> {(r.get('out') or '')[:200]}",
                          payload)
        for d in r.get("det", []):
            run.violation(f"{op}-det:{d[:60]}:{r.get('in')}", d, dict(payload, deterministic=d))
        if st == "error" and "HarnessError" in r.get("error", ""):
            run.harness_error(r["error"])
    run.cov["functions_encoded"] = [
        {"function": "EriOrbenergy.__init__/expr/canonicalize_sign/permute_num/cancel_orb_energy_frac/symbolic_denominator, factor_eri_parts, factor_denom, Expr.use_symbolic_denominators/use_explicit_denominators/diagonalize_fock/block_diagonalize_fock (run concretely; input and output encoded)",
         "source_sha": driver.src_hash(*FILES)}]
    run.cov["bounds"] = {
        "terms": "1-3 remainder tensors (<= 4 contracted, <= 3 targets), 1-3 brackets of 1-4 orbital energies with powers <= 2, optional numerator with rational coefficients; sums of 2-4 alpha-renamed terms for the factor_* functions",
        "models": "2o2v, 2o1v, 1o2v, 1o1v", "shapes": n, "z3_timeout_ms": TIMEOUT}
    run.cov["rule"] = "seeded generator; non-trivial = the operation changed the printed expression; distinct = distinct (operation, input)"
    run.assumptions += [
        "orbital-energy brackets must not vanish (asserted in stage 2); symbolic denominators D are valued as 1/(sum e_upper - sum e_lower)",
        "diagonalize_fock under f_pq = delta_pq e_p; block_diagonalize_fock under f_ov = f_vo = 0",
        "documented refusals (Inputerror / NotImplementedError / RuntimeError for ambiguous signs) give no verdict",
    ]
    sys.exit(run.finish())


if __name__ == "__main__":
    main()
