"""
C11  Expanding, factoring and reducing intermediates are mutually consistent.

The real Expr.expand_intermediates / factor_intermediates / reduce_expr are run on
real-basis expressions; input and output are encoded under the valuation `itmd`
in which every registered intermediate tensor takes the value of its own fully
expanded registered definition (evaluated from expand_itmd at the requested
orbitals); z3 decides value equality for all integrals, orbital energies, free
tensors and target assignments (two-stage: denominators cleared per outer
monomial).
"""
import argparse
import random
import sys
from fractions import Fraction

from sympy import S, Rational, sympify, Add, Mul

from vlib import driver
from vlib import ir as IR
from vlib.driver import Run, pmap, seed
from vlib.model import Model
from vlib.poly import FreeValuation, expr_value
from vlib.tv import compare, expand_numer

FILES = ["adcgen/intermediates.py", "adcgen/factor_intermediates.py", "adcgen/reduce_expr.py",
         "adcgen/eri_orbenergy.py", "adcgen/expr_container.py"]
TIMEOUT = 60000
REAL_SPEC = {("V", 2, 2): ("A", 1), ("f", 1, 1): ("A", 1)}

# tensor symbol -> registered intermediate (by rank / block), re-typed from the
# naming convention of the registry
ITMD_OF = {
    ("t1", 2, 2): "t2_1", ("t2", 1, 1): "t1_2", ("t2", 2, 2): "t2_2", ("t2", 3, 3): "t3_2",
    ("t3", 1, 1): "t1_3", ("t3", 2, 2): "t2_3",
    ("t2eri1", 2, 2): "t2eri_1", ("t2eri3", 2, 2): "t2eri_3", ("t2eri5", 2, 2): "t2eri_5",
    ("t2eri6", 2, 2): "t2eri_6", ("t2eriA", 2, 2): "t2eri_A", ("t2eriB", 2, 2): "t2eri_B",
    ("t2sq", 2, 2): "t2sq",
}
NONSYM = {"t2eri2": "t2eri_2", "t2eri4": "t2eri_4", "t2eri7": "t2eri_7"}
DENS = {("p2", "oo"): "p0_2_oo", ("p2", "vv"): "p0_2_vv", ("p3", "oo"): "p0_3_oo",
        ("p3", "ov"): "p0_3_ov", ("p3", "vv"): "p0_3_vv"}
_DEF_CACHE = {}


def definition(name):
    """(IR of the fully expanded definition, upper default idx IR, lower default idx IR, all)"""
    hit = _DEF_CACHE.get(name)
    if hit is not None:
        return hit
    from adcgen import Intermediates
    from adcgen.sympy_objects import NonSymmetricTensor
    itmd = Intermediates().available[name]
    ex = expand_numer(sympify(itmd.expand_itmd(fully_expand=True).sympy))
    t = itmd.tensor(return_sympy=True)
    if t.could_extract_minus_sign():
        raise ValueError("default tensor of an intermediate carries a sign")
    if isinstance(t, NonSymmetricTensor):
        up, lo = tuple(IR.idx_ir(s) for s in t.indices), ()
    else:
        up, lo = tuple(IR.idx_ir(s) for s in t.upper), tuple(IR.idx_ir(s) for s in t.lower)
    out = (IR.expr_ir(ex), up, lo)
    _DEF_CACHE[name] = out
    return out


def itmd_valuation_factory(vars_, model, spec):
    cache = {}

    def make(iname):
        def ov(val, name, cls, U, L, bks):
            key = (iname, U, L)
            hit = cache.get(key)
            if hit is not None:
                return hit
            dir_, up, lo = definition(iname)
            if cls == "N":
                if len(U) != len(up):
                    return None
                tau = dict(zip(up, U))
            else:
                if len(U) != len(up) or len(L) != len(lo):
                    return None
                # the space of every orbital must fit the default index (block of the definition)
                tau = dict(zip(up + lo, U + L))
            for s, o in tau.items():
                if o not in model.idx_range(s):
                    cache[key] = None
                    return None
            ml = expr_value(dir_, model, val, tau)
            cache[key] = ml
            return ml
        return ov

    def dispatch(val, name, cls, U, L, bks):
        if cls == "N":
            iname = NONSYM.get(name)
            if iname is None:
                return None
            return make(iname)(val, name, cls, U, L, bks)
        iname = ITMD_OF.get((name, len(U), len(L)))
        if iname is None and (name in ("p2", "p3")) and len(U) == 1 and len(L) == 1:
            blk = "".join(sorted(("o" if model.is_occ(o) else "v") for o in (U[0], L[0])))
            iname = DENS.get((name, blk))
            if iname is not None:
                # canonical block: occ index first
                if blk == "ov" and not model.is_occ(U[0]):
                    U, L = L, U
        if iname is None:
            return None
        return make(iname)(val, name, cls, U, L, bks)
    names = {n for n, _, _ in ITMD_OF} | set(NONSYM) | {"p2", "p3"}
    return FreeValuation(vars_, model, spec, overrides={n: dispatch for n in names})


def _sym(n):
    from adcgen.indices import get_symbols
    return get_symbols(n)[0]


def build_input(rng, kind, kind2=None):
    """real-basis expression containing registered intermediates"""
    from adcgen import Expr, Intermediates
    from adcgen.indices import get_symbols
    from adcgen.sympy_objects import AntiSymmetricTensor, Amplitude, NonSymmetricTensor
    avail = Intermediates().available
    if kind == "product":
        name = rng.choice(["t2_1", "t2_1", "t1_2", "t2_2", "p0_2_oo", "p0_2_vv", "t2eri_3",
                           "t2eri_4", "t2eri_5", "t2sq", "t2eri_1", "t2eri_A", "p0_3_oo", "p0_3_vv",
                           "t2eri_2", "t2eri_6", "t2eri_7", "t2eri_B"])
        it = avail[name]
        idx = list(it.default_idx)
        # rename the indices of the intermediate
        pool_o, pool_v = list("ijklmn"), list("abcdef")
        rng.shuffle(pool_o)
        rng.shuffle(pool_v)
        names = [pool_o.pop() if x in "ijklmno" else pool_v.pop() for x in idx]
        tens = it.tensor(indices=names, return_sympy=True)
        syms = get_symbols(names)
        # contract a subset of the indices with a free tensor, the rest are targets
        k = rng.randint(0, len(syms))
        contr = rng.sample(syms, k)
        free = None
        if contr:
            free = NonSymmetricTensor(rng.choice(["c", "b"]), tuple(contr))
        T = [s for s in syms if s not in contr]
        extra = S.One
        if rng.random() < 0.4:
            x, y = _sym(pool_o.pop()), _sym(pool_v.pop())
            extra = AntiSymmetricTensor("f", (x,), (y,)) * NonSymmetricTensor("c2", (x, y))
        term = tens * (free if free is not None else 1) * extra * rng.choice([1, Rational(1, 2), -2])
        if rng.random() < 0.3 and kind2 != "reduce":
            # sometimes a second copy of the same intermediate: the contracted indices of
            # the two expansions must not coincide
            same = name in ("t1_2", "p0_2_oo", "p0_2_vv", "t2eri_4", "t2sq", "t2eri_3") and rng.random() < 0.5
            it2 = it if same else avail[rng.choice(["t2_1", "p0_2_oo"])]
            if sum(1 for x in it2.default_idx if x in "ijklmno") > len(pool_o) or \
                    sum(1 for x in it2.default_idx if x in "abcdefgh") > len(pool_v):
                it2 = avail["p0_2_oo"] if len(pool_o) >= 2 else avail["p0_2_vv"]
            n2 = [pool_o.pop() if x in "ijklmno" else pool_v.pop() for x in it2.default_idx]
            t2 = it2.tensor(indices=n2, return_sympy=True)
            term = term * t2 * NonSymmetricTensor("g2", tuple(get_symbols(n2)))
        e = Expr(term, real=True, target_idx=T)
        return e, f"product:{name}"
    if kind == "square":
        # an intermediate raised to the second power (all its indices are target indices): each
        # factor of the expansion needs its own contracted indices
        name = rng.choice(["t2_1", "t1_2", "p0_2_oo", "p0_2_vv", "t2eri_3", "t2eri_4", "t2sq"])
        it = avail[name]
        pool_o, pool_v = list("ijklmn"), list("abcdef")
        rng.shuffle(pool_o)
        rng.shuffle(pool_v)
        names = [pool_o.pop() if x in "ijklmno" else pool_v.pop() for x in it.default_idx]
        tens = it.tensor(indices=names, return_sympy=True)
        e = Expr(tens ** 2 * rng.choice([1, Rational(1, 2), -1]), real=True, target_idx=get_symbols(names))
        return e, f"square:{name}"
    if kind == "power":
        # the expansion of a short intermediate with unequal exponents of the integral and the
        # orbital-energy bracket, V^n / D^m with n != m (e.g. a t2_1 amplitude divided once more by
        # its own bracket, or multiplied once more by its integral): only min(n, m) amplitudes can be
        # factored and the rest of the integral / bracket has to stay
        from adcgen.sympy_objects import AntiSymmetricTensor as _AST
        name = rng.choice(["t2_1", "t2_1", "t1_2", "t2_2"])
        it = avail["t2_1"]
        pool_o, pool_v = list("ijklmn"), list("abcdef")
        rng.shuffle(pool_o)
        rng.shuffle(pool_v)
        names = [pool_o.pop() if x in "ijklmno" else pool_v.pop() for x in it.default_idx]
        syms = get_symbols(names)
        ex1 = Expr(it.tensor(indices=names, return_sympy=True), real=True,
                   target_idx=syms).expand_intermediates(fully_expand=True)
        vs = [o for o in ex1.sympy.atoms(_AST) if o.name == "V"]
        if len(vs) != 1:
            raise RuntimeError("unexpected t2_1 expansion")
        V = vs[0]
        dinv = ex1.sympy / V
        n_, m_ = rng.choice([(1, 2), (1, 3), (2, 3), (2, 1), (3, 1), (1, 2), (2, 3)])
        term = V ** n_ * dinv ** m_ * rng.choice([1, Rational(1, 2), -3])
        k = rng.randint(0, len(syms))
        contr = rng.sample(syms, k)
        if contr and rng.random() < 0.7:
            term = term * NonSymmetricTensor("c", tuple(contr))
            T = [s_ for s_ in syms if s_ not in contr]
        else:
            term = term * NonSymmetricTensor("c", tuple(syms))
            T = list(syms)
        if rng.random() < 0.3:
            x, y = _sym(pool_o.pop()), _sym(pool_v.pop())
            term = term * AntiSymmetricTensor("f", (x,), (y,)) * NonSymmetricTensor("c2", (x, y))
        e = Expr(term, real=True, target_idx=T)
        return e, f"power:{name}"
    if kind == "polysquare":
        # a sum containing an intermediate raised to the second power (not expanded: a Polynom)
        name = rng.choice(["t2_1", "t1_2", "p0_2_oo", "p0_2_vv", "t2eri_3", "t2eri_4", "t2sq"])
        it = avail[name]
        pool_o, pool_v = list("ijklmn"), list("abcdef")
        rng.shuffle(pool_o)
        rng.shuffle(pool_v)
        names = [pool_o.pop() if x in "ijklmno" else pool_v.pop() for x in it.default_idx]
        tens = it.tensor(indices=names, return_sympy=True)
        syms = get_symbols(names)
        other = NonSymmetricTensor("c", tuple(syms)) * rng.choice([1, 2, Rational(-1, 2)])
        e = Expr((tens + other) ** 2 * rng.choice([1, Rational(1, 2), -1]), real=True, target_idx=syms)
        return e, f"polysquare:{name}"
    if kind == "long":
        # a long intermediate (several terms) times an ERI with shared indices, like the
        # repository's own factorisation tests; used with rescaled terms (mixed prefactors)
        name = rng.choice(["t2_2", "t2_2", "t2_2", "t1_2", "p0_2_oo", "p0_2_vv"])
        it = avail[name]
        pool_o, pool_v = list("ijklmn"), list("abcdef")
        rng.shuffle(pool_o)
        rng.shuffle(pool_v)
        names = [pool_o.pop() if x in "ijklmno" else pool_v.pop() for x in it.default_idx]
        tens = it.tensor(indices=names, return_sympy=True)
        syms = get_symbols(names)
        occ = [s_ for s_ in syms if s_.space == "occ"]
        virt = [s_ for s_ in syms if s_.space == "virt"]
        # ERI: shares the occupied (or virtual) indices of the intermediate
        share = rng.choice(["occ", "virt", "none", "twin", "twin", "twin"])
        if share == "twin" and len(occ) == 2 and len(virt) == 2:
            # two copies of one free tensor contracted with all indices of the intermediate:
            # the remainder is symmetric only under the joint permutation P_oo P_vv, so that one
            # term of the expression stands for two terms of the intermediate
            nm = rng.choice(["c", "Y"])
            mk = (lambda o_, v_: NonSymmetricTensor("c", (o_, v_))) if nm == "c" else \
                (lambda o_, v_: Amplitude("Y", (v_,), (o_,)))
            v = mk(occ[0], virt[0]) * mk(occ[1], virt[1])
            if rng.random() < 0.5:
                x_, y_ = _sym(pool_o.pop()), _sym(pool_v.pop())
                v = v * Amplitude("X", (y_,), (x_,))
        elif share == "occ" and len(occ) == 2:
            v = AntiSymmetricTensor("V", tuple(occ), (_sym(pool_v.pop()), _sym(pool_v.pop())), 1)
        elif share == "virt" and len(virt) == 2:
            v = AntiSymmetricTensor("V", (_sym(pool_o.pop()), _sym(pool_o.pop())), tuple(virt), 1)
        else:
            v = AntiSymmetricTensor("V", (_sym(pool_o.pop()), _sym(pool_o.pop())),
                                    (_sym(pool_v.pop()), _sym(pool_v.pop())), 1)
        term = tens * v * rng.choice([1, Rational(1, 2), -1])
        from adcgen.indices import Index
        cnt = {}
        for o_ in (tens, v):
            for s_ in o_.atoms(Index):
                cnt[s_] = cnt.get(s_, 0) + 1
        T = sorted([s_ for s_, c_ in cnt.items() if c_ == 1], key=lambda s_: s_.name)
        e = Expr(term, real=True, target_idx=T)
        return e, f"long:{name}"
    if kind == "lib":
        from adcgen import Operators, GroundState, IntermediateStates, SecularMatrix
        gs = GroundState(Operators("mp"))
        which = rng.choice(["e2", "e3", "ip_hh2", "pp_phph2", "dens2"])
        if which == "e2":
            ex, T = gs.energy(2), []
        elif which == "e3":
            ex, T = gs.energy(3), []
        elif which == "dens2":
            ex, T = gs.expectation_value(2, 1), []
        elif which == "ip_hh2":
            m = SecularMatrix(IntermediateStates(gs, "ip"))
            ex, T = m.isr_matrix_block(2, "h,h", "i,j"), get_symbols("ij")
        else:
            m = SecularMatrix(IntermediateStates(gs, "pp"))
            ex, T = m.isr_matrix_block(2, "ph,ph", "ia,jb"), get_symbols("iajb")
        e = Expr(ex, real=True, target_idx=T)
        e.diagonalize_fock()
        return e, f"lib:{which}"
    raise ValueError(kind)


def run_case(item):
    kind, op, sd = item
    rng = random.Random(sd)
    from adcgen import Expr
    from adcgen.factor_intermediates import factor_intermediates
    from adcgen.reduce_expr import reduce_expr
    try:
        e, tag = build_input(rng, kind, op)
    except (RuntimeError, IndexError):
        return {"status": "skipped", "item": item}
    if e.sympy is S.Zero:
        return {"status": "skipped", "item": item}
    T = list(e.provided_target_idx or [])
    res = {"item": item, "tag": tag, "op": op, "in": str(e)[:400], "target": " ".join(map(str, T))}
    fully = rng.random() < 0.6
    try:
        if op == "expand":
            out = e.copy().expand_intermediates(fully_expand=fully)
            res["op"] = f"expand_intermediates(fully_expand={fully})"
            A = e.sympy
        elif op == "factor":
            ex = e.copy().expand_intermediates(fully_expand=True)
            if kind == "long" and (rng.random() < 0.6 or "Y" in str(e) or "c_" in str(e)):
                # merge equivalent terms first (one term of the expression may then stand for
                # several terms of the intermediate)
                ex = reduce_expr(e.copy())
            names = rng.choice([None, ["t_amplitude"], ["t2_1"], ["t2_1", "t1_2", "t2_2"],
                                ["t2_1", "mp_density"], ["t_amplitude", "mp_density"]])
            if kind == "long":
                names = rng.choice([[tag.split(":")[1]], ["t2_1", tag.split(":")[1]], None])
            if kind == "power":
                names = rng.choice([["t2_1"], [tag.split(":")[1]], ["t_amplitude"], None])
            mo = rng.choice([None, 1, 2, 3]) if kind != "long" else rng.choice([None, 2, 3])
            if (rng.random() < 0.45 or kind == "long") and len(ex) > 1:
                # mixed prefactors: rescale one or two terms of the expanded expression, so that
                # a long intermediate can only be factored by adding compensating terms
                tl = list(ex.terms)
                picks = rng.sample(range(len(tl)), min(len(tl), rng.choice([1, 1, 2]) if kind != "long" else 1))
                new = S.Zero
                for q, t in enumerate(tl):
                    new += t.sympy * (rng.choice([2, 3, Rational(1, 2), Rational(3, 2), -1]) if q in picks else 1)
                ex = Expr(new, **ex.assumptions)
                res["mixed"] = True
            rng2 = random.Random(sd * 48271 + 11)
            if kind == "long" and len(T) >= 2 and rng2.random() < 0.35:
                # orbital-energy numerators that differ from term to term (+e_x on some, -e_y on the
                # others): the terms then no longer combine to the intermediate with one common remainder
                from adcgen.sympy_objects import NonSymmetricTensor
                x_, y_ = rng2.sample(T, 2)
                new = S.Zero
                for t in ex.terms:
                    new += t.sympy * (NonSymmetricTensor("e", (x_,)) if rng2.random() < 0.5
                                      else -NonSymmetricTensor("e", (y_,)))
                ex = Expr(new, **ex.assumptions)
                res["numerators"] = True
            out = factor_intermediates(ex.copy(), names, mo)
            res["op"] = f"factor_intermediates(expanded{' with rescaled terms' if res.get('mixed') else ''}{' and term-wise orbital-energy numerators' if res.get('numerators') else ''}, {names}, max_order={mo})"
            res["in"] = str(ex)[:400]
            A = ex.sympy
        elif op == "reduce":
            out = reduce_expr(e.copy())
            res["op"] = "reduce_expr"
            A = e.sympy
        else:
            raise ValueError(op)
    except NotImplementedError as exc:
        return dict(res, status="skipped", note=str(exc)[:100])
    res["out"] = str(out)[:400]
    model = Model(2, 2)
    if set(out.provided_target_idx or []) != set(T) and out.provided_target_idx is not None:
        res["det"] = [f"target indices changed: {T} -> {out.provided_target_idx}"]
    oc = compare(A, out.sympy, T, model, timeout_ms=TIMEOUT, seed=seed(),
                 valuation_factory=itmd_valuation_factory, spec_extra=REAL_SPEC)
    res.update(oc.as_dict())
    res["witness"], res["model"] = oc.witness, model.tag
    res["nontrivial"] = str(out) != str(e)
    return res


def main():
    global TIMEOUT
    ap = argparse.ArgumentParser()
    ap.add_argument("--tier", default="quick")
    ap.add_argument("--replay")
    a = ap.parse_args()
    if a.replay:
        import json
        p = json.load(open(a.replay))
        r = run_case(tuple(p["item"]))
        print(json.dumps({k: r.get(k) for k in ("status", "op", "in", "out", "witness")}, indent=1, default=str))
        return 1 if r.get("status") == "differ" else 0
    quick = a.tier == "quick"
    TIMEOUT = 60000 if quick else 300000
    run = Run("C11", a.tier, "translation_validation")
    base = seed() * 1000003 + 1100
    items = []
    n = 60 if quick else 900
    for k in range(n):
        items.append(("product", ["expand", "factor", "reduce"][k % 3], base + k))
    for k in range(10 if quick else 60):
        items.append(("lib", ["expand", "factor", "reduce"][k % 3], base + 5000 + k))
    for k in range(24 if quick else 300):
        items.append(("long", "factor", base + 7000 + k))
    for k in range(8 if quick else 60):
        items.append(("square", ["expand", "reduce"][k % 2], base + 8000 + k))
    for k in range(6 if quick else 40):
        items.append(("polysquare", "expand", base + 9000 + k))
    for k in range(14 if quick else 120):
        items.append(("power", "factor", base + 9500 + k))
    results = pmap(run_case, items, limit=90 if quick else 1200, workers=15)
    for r in results:
        if r.get("status") == "timeout":
            # factor_intermediates / reduce_expr did not finish within the per-case limit:
            # no verdict, not a violation
            r["status"] = "skipped"
            run.cov["library_timeouts"] = run.cov.get("library_timeouts", 0) + 1
        st = r.get("status")
        op = (r.get("op") or "?").split("(")[0]
        run.add_outcome(f"{op}/{(r.get('tag') or '?').split(':')[0]}", r,
                        sample={"op": r.get("op"), "in": r.get("in", "")[:250], "out": (r.get("out") or "")[:250],
                                "model": r.get("model"), "stage2": r.get("stage2"), "verdict": st}
                        if st == "equal" and r.get("nontrivial") else None,
                        distinct_key=(r.get("op"), r.get("in")), nontrivial=bool(r.get("nontrivial")))
        payload = {"item": list(r["item"]) if isinstance(r.get("item"), tuple) else r.get("item"),
                   "op": r.get("op"), "input": r.get("in"), "output": r.get("out"), "witness": r.get("witness")}
        if st == "differ":
            run.violation(f"{r.get('op')}:{r.get('in')}", f"{r.get('op')} changed the value: {r.get('in', '')[:200]} -> {(r.get('out') or '')[:200]}", payload)
        for d in r.get("det", []):
            run.violation(f"{r.get('op')}-det:{d[:60]}:{r.get('in')}", d, dict(payload, deterministic=d))
        if st == "error" and "HarnessError" in r.get("error", ""):
            run.harness_error(r["error"])
    run.cov["functions_encoded"] = [
        {"function": "Expr.expand_intermediates, factor_intermediates (factor_itmd, _factor_long_intermediate, _factor_short_intermediate), reduce_expr (run concretely; input and output encoded)",
         "source_sha": driver.src_hash(*FILES)}]
    run.cov["bounds"] = {
        "inputs": "V^n/D^m with n != m (expansion of t2_1 with unequal exponents of integral and bracket, n, m <= 3); intermediate tensor (t2_1, t1_2, t2_2, p0_2_oo/vv, t2eri_1/3/4/5/A, t2sq) x free tensors x optional f and a second intermediate, any subset of its indices contracted; library: E(2), E(3), second-order density, ip h/h and pp ph/ph second-order matrix blocks (real, Fock diagonalised)",
        "options": "fully / once expanded; factor: None, types, names, mixed subsets; max_order None/1/2/3",
        "model": "2o2v", "shapes": len(items), "z3_timeout_ms": TIMEOUT}
    run.cov["rule"] = "seeded generator; non-trivial = the operation changed the expression; distinct = distinct (operation, input)"
    run.assumptions += [
        "valuation itmd: every registered intermediate tensor symbol := value of its fully expanded registered definition (C12 ties the definitions to the quantities they name)",
        "real orbital basis, canonical orbitals (f diagonal) for the library inputs",
        "third-order intermediates and quadruples are outside (2o2v model)",
    ]
    sys.exit(run.finish())


if __name__ == "__main__":
    main()
