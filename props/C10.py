"""
C10  Reported permutational symmetries are true; decompositions are lossless.

E1: the real Term.symmetry / Obj.symmetry / exploit_perm_sym / sort.by_* /
filter_tensor are run on generated expressions.  Every reported (permutations,
+-1) is checked by z3: value(term with the permutation applied by sympy's
simultaneous substitution of the composed map) = +- value(term) for all tensor
entries and target assignments; decompositions are re-assembled
(sum_key (1 + sum f P) part_key, resp. sum of parts) and compared with the
input by z3; the key of every filed term is recomputed independently (direct).
"""
import argparse
import random
import sys

from sympy import Add, Mul, S, Rational, Pow

from vlib import driver
from vlib import ir as IR
from vlib.driver import Run, pmap, seed
from vlib.model import Model
from vlib.tv import compare, pick_model, default_target
from vlib.gen import TermGen, POOL, consistent_bks
from vlib.poly import Unsupported

FILES = ["adcgen/expr_container.py", "adcgen/symmetry.py", "adcgen/sort_expr.py", "adcgen/simplify.py"]
TIMEOUT = 20000
MODELS = [Model(3, 3), Model(2, 2), Model(2, 1), Model(1, 1)]


def compose(perms):
    """composite substitution map of transpositions applied one after another"""
    m = {}
    idx = set()
    for p, q in perms:
        idx |= {p, q}
    for s in idx:
        y = s
        for p, q in perms:
            if y is p:
                y = q
            elif y is q:
                y = p
        m[s] = y
    return m


def apply_perms(expr, perms):
    return expr.xreplace(compose(perms))


def _targets(rng, spaces, nmax, spin=False):
    from adcgen.indices import get_symbols
    out, seen = [], set()
    for _ in range(rng.randint(1, nmax)):
        sp = rng.choice(spaces)
        nm = rng.choice(POOL[sp][:4])
        sn = rng.choice("ab") if spin else ""
        if (nm, sn) in seen:
            continue
        seen.add((nm, sn))
        out.append(get_symbols(nm, sn)[0] if sn else get_symbols(nm)[0])
    return out


def _model_for(irs, Tir, spin):
    cands = [Model(2, 2, spin=True), Model(1, 1, spin=True)] if spin else MODELS
    return pick_model(irs, Tir, cands, budget=150000)


def _cmp(A, B, target, res, spin=False, val_opts=None):
    irs = [IR.expr_ir(A), IR.expr_ir(B)]
    Tir = {IR.idx_ir(s) for s in target}
    model = _model_for(irs, Tir, spin)
    oc = compare(A, B, target, model, timeout_ms=TIMEOUT, seed=seed(), val_opts=val_opts)
    for k in ("queries", "unsat", "sat", "unknown", "stage2", "solver_s", "encode_s"):
        res[k] = res.get(k, 0) + getattr(oc, k)
    res["model"] = model.tag
    return oc


def run_symmetry(sd):
    rng = random.Random(sd)
    from adcgen import Expr
    spin = rng.random() < 0.2
    denom = rng.random() < 0.2
    g = TermGen(rng, spaces=rng.choice(["ov", "ov", "ovg"]), spin=spin, n_tensors=(1, 3),
                max_contracted=3, max_target=3, exponents=0.1, pool_size=4,
                names=["V", "f", "t1", "t2", "Y", "X", "d", "c", "g"] + (["D"] if denom else []),
                exclude=())
    try:
        term = g.term()
    except RuntimeError:
        return {"status": "skipped", "item": sd}
    if not consistent_bks(term):
        return {"status": "skipped", "item": sd}
    explicit = rng.random() < 0.4
    from adcgen.indices import Index
    allidx = sorted(term.atoms(Index), key=lambda s: (s.name, s.spin))
    kw = {}
    if explicit:
        kw["target_idx"] = [s for s in allidx if rng.random() < 0.4]
    e = Expr(term, **kw)
    t = e.terms[0]
    target = list(t.target)
    res = {"item": sd, "in": str(e), "target": " ".join(map(str, target)), "status": "equal",
           "reported": 0}
    mode = rng.choice(["contracted", "target", "all", "obj"])
    res["mode"] = mode
    if mode == "contracted":
        sym = t.symmetry(only_contracted=True)
    elif mode == "target":
        sym = t.symmetry(only_target=True)
    elif mode == "all":
        sym = t.symmetry()
    else:
        o = rng.choice([x for x in t.objects if x.idx] or [None])
        if o is None:
            return dict(res, status="skipped")
        sym = o.symmetry()
        term = o.sympy
        target = list(dict.fromkeys(o.idx))      # an object alone: all its indices are free
        res["in"] = str(o)
    for perms, f in sym.items():
        res["reported"] += 1
        # a permutation acts on index *assignments*: it must exchange indices with the same
        # range (space and spin), otherwise it cannot be applied to an assignment at all
        for p_, q_ in perms:
            if p_.space != q_.space or p_.spin != q_.spin:
                res.setdefault("det", []).append(
                    f"reported transposition P_{{{p_}{q_}}} exchanges indices of different space / spin")
        B = f * apply_perms(term, perms)
        tgt = target
        if mode == "all":
            # permutations may exchange target and contracted indices: fix all indices
            tgt = allidx
        oc = _cmp(term, B, tgt, res, spin)
        if oc.status != "equal":
            res["status"] = oc.status
            res["witness"] = dict(oc.witness or {}, permutation=str(perms), factor=f)
            res["out"] = f"{perms}: {f}"
            if oc.status == "differ":
                break
    return res


def _twin_term(rng, T):
    """Product of two copies of one tensor with the targets i,a / j,b distributed over
    the copies (optionally sharing contracted indices, optionally times a third tensor):
    a term that is itself invariant under P_ij P_ab, so that two different reported
    permutations map it onto the same partner term."""
    from adcgen.indices import get_symbols
    from adcgen.sympy_objects import AntiSymmetricTensor, NonSymmetricTensor, Amplitude
    i, j, a, b = T
    kind = rng.choice(["Y1", "c2", "b3", "W", "f"])
    k, c = get_symbols("kc")
    if kind == "Y1":
        t = Amplitude("Y", (a,), (i,)) * Amplitude("Y", (b,), (j,))
    elif kind == "c2":
        t = NonSymmetricTensor("c", (i, a)) * NonSymmetricTensor("c", (j, b))
    elif kind == "b3":
        x = rng.choice([k, c])
        t = NonSymmetricTensor("b", (i, x, a)) * NonSymmetricTensor("b", (j, x, b))
    elif kind == "W":
        t = AntiSymmetricTensor("V", (i, k), (a, c)) * AntiSymmetricTensor("V", (j, k), (b, c))
    else:
        t = AntiSymmetricTensor("f", (i,), (a,)) * AntiSymmetricTensor("f", (j,), (b,))
    if rng.random() < 0.3:
        l, d = get_symbols("ld")
        t *= Amplitude("t2", (d,), (l,)) * NonSymmetricTensor("c", (l, d))
    return rng.choice([1, -1, 2, Rational(1, 2)]) * t


def run_exploit(sd):
    rng = random.Random(sd)
    from adcgen import Expr
    from adcgen.sort_expr import exploit_perm_sym
    from adcgen.indices import get_symbols
    from adcgen.symmetry import Permutation
    shape = rng.choice(["ia", "ij,ab", "ia,jb", "ijab", "ijk", "i,j"])
    names = shape.replace(",", "")
    spin = rng.random() < 0.25            # spin-labelled target indices, target_spin given
    tspin = "".join(rng.choice("ab") for _ in names) if spin else None
    T = get_symbols(names, tspin) if spin else get_symbols(names)
    denom = rng.random() < 0.2
    g = TermGen(rng, spaces="ov", spin=spin, n_tensors=(2, 3), max_contracted=4 if not spin else 3,
                names=["V", "f", "t1", "t2", "Y", "d0", "c"] + (["D"] if denom else []), exclude=())
    twin = len(names) == 4 and names != "ijk" and rng.random() < 0.35 and not spin
    try:
        t0 = _twin_term(rng, T) if twin else g.term_with_target(T)
    except RuntimeError:
        return {"status": "skipped", "item": sd}
    # symmetrise over a random subgroup generated by 1-2 transpositions within spaces
    by_space = {}
    for s in T:
        by_space.setdefault((s.space, s.spin), []).append(s)
    gens = []
    for sp, lst in by_space.items():
        if len(lst) >= 2 and rng.random() < 0.8:
            gens.append((tuple(rng.sample(lst, 2)), rng.choice([1, -1])))
    terms = [t0]
    for (p, q), f in gens:
        terms = terms + [f * x.xreplace({p: q, q: p}) for x in terms]
    if rng.random() < 0.4:
        try:
            terms.append(g.term_with_target(T))
        except RuntimeError:
            pass
    expr = Add(*terms)
    if expr is S.Zero or not consistent_bks(expr):
        return {"status": "skipped", "item": sd}
    e = Expr(expr)
    if e.sympy.is_number:
        return {"status": "skipped", "item": sd}
    if any(set(t.target) != set(T) for t in e.terms):
        return {"status": "skipped", "item": sd}
    bks = rng.choice([0, 0, 1, -1]) if "," in shape and len(shape.split(",")[0]) == len(shape.split(",")[1]) else 0
    if spin:
        bks = 0
    anti = rng.random() < 0.7
    arg_t = rng.choice([shape, None]) if not bks else shape
    res = {"item": sd, "in": str(e), "target": shape + (f" spin {tspin}" if spin else ""), "bra_ket_sym": bks, "antisym": anti,
           "status": "equal"}
    try:
        parts = exploit_perm_sym(e.copy(), target_indices=arg_t, target_spin=tspin if arg_t else None,
                                 bra_ket_sym=bks, antisymmetric_result_tensor=anti)
    except Exception as exc:
        from adcgen.misc import Inputerror
        if isinstance(exc, (Inputerror, NotImplementedError)):
            return dict(res, status="skipped", note=str(exc)[:100])
        raise
    B = S.Zero
    n_terms = 0
    for key, part in parts.items():
        ps = part.sympy if hasattr(part, "sympy") else S(part)
        B += ps
        n_terms += len(ps.args) if isinstance(ps, Add) else (0 if ps is S.Zero else 1)
        for perms, f in key:
            B += f * apply_perms(ps, perms)
    res["out"] = str({str(k): str(v) for k, v in parts.items()})[:400]
    res["n_in"], res["n_out"] = len(e), n_terms
    res["nontrivial"] = any(k for k in parts)
    oc = _cmp(e.sympy, B, T, res, spin)
    res["status"] = oc.status
    res["witness"] = oc.witness
    return res


def run_termmap(sd):
    """LazyTermMap: every reported entry i -> j of the map of (permutations, factor) must
    satisfy  P term_i = factor * term_j  in value; queried in sequences on one instance
    (the class caches maps and derives maps of re-ordered products from cached ones)."""
    rng = random.Random(sd)
    from itertools import permutations as iperms
    from adcgen import Expr
    from adcgen.simplify import simplify
    from adcgen.symmetry import LazyTermMap, Permutation
    from adcgen.indices import get_symbols
    sp = rng.choice(["o", "v"])
    three = get_symbols("ijk" if sp == "o" else "abc")
    extra = get_symbols(rng.choice(["", "a", "ab"]) if sp == "o" else rng.choice(["", "i", "ij"]))
    T = list(three) + list(extra)
    g = TermGen(rng, spaces="ov", n_tensors=(2, 3), max_contracted=3,
                names=["V", "f", "t1", "t2", "Y", "d0", "c", "b"], exclude=())
    try:
        t0 = g.term_with_target(T)
    except RuntimeError:
        return {"status": "skipped", "item": sd}
    if not consistent_bks(t0):
        return {"status": "skipped", "item": sd}
    mode = rng.choice(["anti", "anti", "sym", "cyclic"])
    terms = []
    for pm in iperms(range(3)):
        par = sum(1 for x in range(3) for y in range(x + 1, 3) if pm[x] > pm[y]) % 2
        if mode == "cyclic" and par:
            continue
        sub = {three[q]: three[pm[q]] for q in range(3)}
        terms.append((-1 if (par and mode == "anti") else 1) * t0.xreplace(sub))
    e = simplify(Expr(Add(*terms), target_idx=T))
    if e.sympy is S.Zero or len(e) < 2:
        return {"status": "skipped", "item": sd}
    res = {"item": sd, "in": str(e)[:300], "target": " ".join(map(str, T)), "status": "equal",
           "reported": 0, "mode": "termmap"}
    m = LazyTermMap(e)
    tl = list(e.terms)
    P = lambda x, y: Permutation(three[x], three[y])       # noqa: E731
    singles = [(P(0, 1),), (P(0, 2),), (P(1, 2),)]
    doubles = [(P(0, 1), P(0, 2)), (P(0, 2), P(0, 1)), (P(0, 1), P(1, 2)), (P(1, 2), P(0, 1)),
               (P(0, 2), P(1, 2)), (P(1, 2), P(0, 2))]
    if len(extra) == 2:
        px = Permutation(extra[0], extra[1])
        doubles += [(P(0, 1), px), (P(0, 1), P(0, 2), px), (P(0, 2), P(0, 1), px)]
    queries = [(rng.choice(doubles), rng.choice([1, -1])) for _ in range(rng.randint(2, 4))]
    queries += [(rng.choice(singles), rng.choice([1, -1]))]
    if rng.random() < 0.7:
        # the same product in reversed order right after the original one
        q0 = queries[0]
        queries.insert(1, (tuple(reversed(q0[0])) if len(q0[0]) == 2 else q0[0], q0[1]))
    out = []
    for perms, f in queries:
        mp = m[(perms, f)]
        out.append(f"{perms}:{f} -> {mp}")
        for ti, tj in mp.items():
            res["reported"] += 1
            A = apply_perms(tl[ti].sympy, [tuple(p_) for p_ in perms])
            B = f * tl[tj].sympy
            oc = _cmp(A, B, T, res)
            if oc.status != "equal":
                res["status"] = oc.status
                res["witness"] = dict(oc.witness or {}, query=f"{perms}:{f}", entry=f"{ti}->{tj}",
                                      history=out[:])
                res["out"] = "; ".join(out)[:400]
                if oc.status == "differ":
                    return res
    res["out"] = "; ".join(out)[:400]
    return res


def _key_block(o):
    """space (and spin) block of an IR tensor/delta factor, as the library words it"""
    idx = list(o[3] + o[4]) if o[0] == "t" else (list(o[2]) if o[0] == "n" else [o[1], o[2]])
    if o[0] == "t" and o[2] == "M":
        idx = list(o[4] + o[3])
    sp = "".join(s[1] for s in idx)
    if any(s[2] for s in idx):
        sp += "_" + "".join(s[2] or "n" for s in idx)
    return sp


def run_sort(sd):
    rng = random.Random(sd)
    from adcgen import Expr
    from adcgen import sort_expr
    from adcgen.simplify import filter_tensor
    from adcgen.indices import get_symbols, Index
    spin = rng.random() < 0.2
    T = _targets(rng, "ov", 3, spin)
    g = TermGen(rng, spaces="ov", spin=spin, n_tensors=(1, 3), max_contracted=4, deltas=(0, 2),
                exponents=0.15, names=["V", "f", "t1", "Y", "d0", "c"], exclude=())
    terms = []
    for _ in range(rng.randint(2, 5)):
        try:
            terms.append(g.term_with_target(T))
        except RuntimeError:
            pass
    expr = Add(*terms)
    if expr is S.Zero or not consistent_bks(expr) or expr.is_number:
        return {"status": "skipped", "item": sd}
    e = Expr(expr, target_idx=T)
    which = rng.choice(["by_delta_types", "by_delta_indices", "by_tensor_block",
                        "by_tensor_target_block", "by_tensor_target_indices", "filter_tensor"])
    tname = rng.choice(["V", "f", "t1", "Y", "d0", "c"])
    res = {"item": sd, "in": str(e), "api": which, "status": "equal", "det": []}
    if which == "filter_tensor":
        strict = rng.choice(["low", "medium", "high"])
        names = [tname] * rng.choice([1, 1, 2])
        res["api"] = f"filter_tensor({names}, strict={strict!r})"
        kept = filter_tensor(e.copy(), names, strict=strict)
        # complement, by the documented rule, recomputed from the IR
        keep, drop = S.Zero, S.Zero
        for t in (e.sympy.args if isinstance(e.sympy, Add) else (e.sympy,)):
            tir = IR.term_ir(t)
            avail = []
            for f in tir[2]:
                if f[0] == "t":
                    avail += [f[1]] * f[6]
                elif f[0] == "n":
                    avail += [f[1]] * f[3]
            from collections import Counter
            ca, cd = Counter(avail), Counter(names)
            if strict == "low":
                ok = all(n in avail for n in set(names))
            elif strict == "medium":
                # documented: the requested tensors the requested number of times, other
                # tensors may be present in addition
                ok = all(ca[n] == c for n, c in cd.items())
            else:
                amps = {n for n in avail if (n.startswith("t") or n in ("X", "Y")) and n not in names}
                ca2 = Counter([n for n in avail if n not in amps])
                ok = ca2 == cd
            if ok:
                keep += t
            else:
                drop += t
        oc = _cmp(keep, kept.sympy, T, res, spin)
        res["status"], res["witness"] = oc.status, oc.witness
        res["out"] = str(kept)[:300]
        res["nontrivial"] = keep is not S.Zero and drop is not S.Zero
        return res
    fn = getattr(sort_expr, which)
    parts = fn(e.copy()) if which.startswith("by_delta") else fn(e.copy(), tname)
    if not which.startswith("by_delta"):
        res["api"] = f"{which}(expr, {tname!r})"
    B = S.Zero
    Tset = {IR.idx_ir(s) for s in T}
    for key, part in parts.items():
        ps = part.sympy if hasattr(part, "sympy") else S(part)
        B += ps
        for t in (ps.args if isinstance(ps, Add) else (ps,)):
            if t is S.Zero:
                continue
            tir = IR.term_ir(t)
            if which == "by_delta_types":
                k = tuple(sorted(_key_block(f) for f in tir[2] if f[0] == "d")) or ("none",)
            elif which == "by_delta_indices":
                k = tuple(sorted("".join(IR.idx_str(x) for x in (f[1], f[2]))
                                 for f in tir[2] if f[0] == "d")) or ("none",)
            elif which == "by_tensor_block":
                k = []
                for f in tir[2]:
                    if f[0] in "tn" and f[1] == tname:
                        k += [_key_block(f)] * (f[6] if f[0] == "t" else f[3])
                k = tuple(sorted(k)) or ("none",)
            else:
                k = []
                for f in tir[2]:
                    if f[0] in "tn" and f[1] == tname:
                        idx = (list(f[4] + f[3]) if f[2] == "M" else list(f[3] + f[4])) \
                            if f[0] == "t" else list(f[2])
                        tt = [x for x in idx if x in Tset]
                        if not tt:
                            k.append("none")
                        elif which == "by_tensor_target_block":
                            b = "".join(x[1] for x in tt)
                            if any(x[2] for x in tt):
                                b += "_" + "".join(x[2] or "n" for x in tt)
                            k.append(b)
                        else:
                            k.append("".join(x[0] for x in tt))
                k = tuple(sorted(k)) or (f"no_{tname}",)
            if k != key:
                res["det"].append(f"term {t} filed under {key}, recomputed key {k}")
    res["out"] = str({str(k): str(v) for k, v in parts.items()})[:300]
    res["nontrivial"] = len(parts) > 1
    oc = _cmp(e.sympy, B, T, res, spin)
    res["status"], res["witness"] = oc.status, oc.witness
    return res


def run_filter(sd):
    """filter_tensor on expressions built from few tensor names (the same name on several objects
    of a term is the rule, not the exception); the request is a sub-multiset of what one term holds"""
    rng = random.Random(sd)
    from collections import Counter
    from adcgen import Expr
    from adcgen.simplify import filter_tensor
    spin = rng.random() < 0.15
    T = _targets(rng, "ov", 2, spin)
    names_pool = rng.choice([["V", "Y"], ["V", "f", "t1"], ["Y", "c", "V"], ["t1", "t2", "V"]])
    g = TermGen(rng, spaces="ov", spin=spin, n_tensors=(2, 4), max_contracted=4, deltas=(0, 1),
                exponents=0.2, names=names_pool, exclude=())
    terms = []
    for _ in range(rng.randint(3, 6)):
        try:
            terms.append(g.term_with_target(T))
        except RuntimeError:
            pass
    expr = Add(*terms)
    if expr is S.Zero or not consistent_bks(expr) or expr.is_number:
        return {"status": "skipped", "item": sd}
    e = Expr(expr, target_idx=T)

    def avail_of(t):
        out = []
        for f in IR.term_ir(t)[2]:
            if f[0] == "t":
                out += [f[1]] * f[6]
            elif f[0] == "n":
                out += [f[1]] * f[3]
        return out
    tl = list(e.sympy.args) if isinstance(e.sympy, Add) else [e.sympy]
    pick = avail_of(rng.choice(tl))
    if not pick:
        return {"status": "skipped", "item": sd}
    names = rng.sample(pick, rng.randint(1, len(pick)))
    strict = rng.choice(["low", "medium", "medium", "high", "high"])
    ign = rng.random() < 0.7
    res = {"item": sd, "in": str(e), "api": f"filter_tensor({names}, strict={strict!r}, ignore_amplitudes={ign})",
           "status": "equal", "det": []}
    kept = filter_tensor(e.copy(), names, strict=strict, ignore_amplitudes=ign)
    keep, drop = S.Zero, S.Zero
    for t in tl:
        avail = avail_of(t)
        ca, cd = Counter(avail), Counter(names)
        if strict == "low":
            ok = all(n in avail for n in set(names))
        elif strict == "medium":
            ok = all(ca[n] == c for n, c in cd.items())
        else:
            amps = {n for n in avail if (n.startswith("t") or n in ("X", "Y")) and n not in names} if ign else set()
            ok = Counter([n for n in avail if n not in amps]) == cd
        if ok:
            keep += t
        else:
            drop += t
    oc = _cmp(keep, kept.sympy, T, res, spin)
    res["status"], res["witness"] = oc.status, oc.witness
    res["out"] = str(kept)[:300]
    res["nontrivial"] = keep is not S.Zero and drop is not S.Zero
    return res


def main():
    global TIMEOUT
    ap = argparse.ArgumentParser()
    ap.add_argument("--tier", default="quick")
    ap.add_argument("--replay")
    a = ap.parse_args()
    fns = {"symmetry": run_symmetry, "exploit": run_exploit, "sort": run_sort, "termmap": run_termmap,
           "filter": run_filter}
    if a.replay:
        import json
        p = json.load(open(a.replay))
        r = fns[p["part"]](p["item"])
        print(json.dumps({k: r.get(k) for k in ("status", "in", "out", "det", "witness")},
                         indent=1, default=str))
        return 1 if (r.get("status") == "differ" or r.get("det")) else 0
    quick = a.tier == "quick"
    TIMEOUT = 20000 if quick else 120000
    run = Run("C10", a.tier, "translation_validation")
    n = {"symmetry": 160, "exploit": 80, "sort": 100, "termmap": 60, "filter": 80} if quick else \
        {"symmetry": 3000, "exploit": 1200, "sort": 1500, "termmap": 600, "filter": 1000}
    base = seed() * 1000003 + 1000
    for part, fn in fns.items():
        results = pmap(fn, [base + k for k in range(n[part])], limit=(30 if quick else 300))
        for r in results:
            if r.get("status") == "timeout":
                # Term.symmetry enumerates products of transpositions and may not finish
                # for terms with many repeated indices: no verdict, not a violation
                r["status"] = "skipped"
                run.cov.setdefault("library_timeouts", 0)
                run.cov["library_timeouts"] += 1
            st = r.get("status")
            sub = f"{part}/{r.get('mode') or r.get('api', '').split('(')[0] or ''}".rstrip("/")
            nontriv = bool(r.get("reported") or r.get("nontrivial"))
            run.add_outcome(sub, r, sample={"part": part, "in": r.get("in", "")[:250],
                                           "target": r.get("target"), "reported_symmetries": r.get("reported"),
                                           "out": (r.get("out") or "")[:200], "model": r.get("model"),
                                           "verdict": st} if st == "equal" and nontriv else None,
                            distinct_key=(part, r.get("in"), r.get("mode"), r.get("api")),
                            nontrivial=nontriv)
            payload = {"part": part, "item": r.get("item"), "input": r.get("in"),
                       "output": r.get("out"), "witness": r.get("witness"), "api": r.get("api") or r.get("mode")}
            if st == "differ":
                run.violation(f"{part}:{r.get('in')}|{r.get('mode') or r.get('api')}",
                              f"{part} ({r.get('mode') or r.get('api')}): {r.get('in', '')[:200]} -> {(r.get('out') or '')[:200]}",
                              payload)
            for d in r.get("det", []):
                run.violation(f"{part}-det:{d[:60]}", d, dict(payload, deterministic=d))
            if st == "error" and "HarnessError" in r.get("error", ""):
                run.harness_error(r["error"])
    run.cov["functions_encoded"] = [
        {"function": "Term.symmetry, Obj.symmetry, exploit_perm_sym, by_delta_types, by_delta_indices, by_tensor_block, by_tensor_target_block, by_tensor_target_indices, filter_tensor (run concretely; inputs, reported permutations and returned parts encoded)",
         "source_sha": driver.src_hash(*FILES)}]
    run.cov["bounds"] = {
        "terms": "1-3 tensors, <= 4 contracted, <= 4 targets, optional symbolic denominators, exponents, deltas, spin labels",
        "exploit_perm_sym": "expressions symmetrised over a random subgroup of target permutations (+ optional extra term); target strings ia / ij,ab / ia,jb / ijab / ijk / i,j; bra-ket 0/+1/-1; (anti)symmetric result tensor",
        "models": "<= 3o3v (spin 2o2v x ab)", "shapes": n, "z3_timeout_ms": TIMEOUT}
    run.cov["rule"] = "seeded generator; non-trivial = at least one symmetry reported / more than one part; distinct = distinct (input, mode)"
    run.assumptions += [
        "permutations are applied to the expressions by sympy's simultaneous substitution of the composed map (independent of Container.permute)",
        "the filing key of every term is recomputed from the printed term (direct comparison)",
    ]
    sys.exit(run.finish())


if __name__ == "__main__":
    main()
