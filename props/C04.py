"""
C04  Intermediate states are orthonormal order by order.

s_root kernel: IntermediateStates.s_root is run with overlap_precursor stubbed by free
symbolic block tensors and compared with the lambda^n coefficient of (1 + sum_k S^(k))^(-1/2)
as a matrix series over the restricted composite indices (orders <= 6 / 8, all class types).
The real IntermediateStates.overlap_isr is run for every variant / class pair /
order of the stated bound; z3 decides, for all ground-state amplitude values and
all index assignments of the model, that the returned expression equals the
antisymmetrised delta product (order 0, equal classes) respectively is
identically zero (every other case).  overlap_precursor(I,J) is compared with
overlap_precursor(J,I) (real amplitudes).
"""
import argparse
import sys
from fractions import Fraction

from vlib import driver
from vlib import ir as IR
from vlib.driver import Run, pmap, seed
from vlib.model import Model, sort_parity
from vlib.tv import compare

FILES = ["adcgen/intermediate_states.py", "adcgen/groundstate.py"]
TIMEOUT = 30000

SPACES = {"pp": ["ph", "pphh"], "ip": ["h", "phh"], "ea": ["p", "pph"],
          "dip": ["hh", "phhh"], "dea": ["pp", "ppph"]}
OCC, VIRT = "ijklmn", "abcdef"


def idx_for(space, used_o=0, used_v=0):
    nh, np_ = space.count("h"), space.count("p")
    return OCC[used_o:used_o + nh] + VIRT[used_v:used_v + np_]


class DeltaRef:
    """antisymmetrised product of deltas between two index tuples of one class"""
    irs = []

    def __init__(self, o1, v1, o2, v2, zero=False):
        self.o1, self.v1, self.o2, self.v2, self.zero = o1, v1, o2, v2, zero

    def __call__(self, model, val, tau):
        if self.zero:
            return []
        val_ = 1
        for x, y in ((self.o1, self.o2), (self.v1, self.v2)):
            a = tuple(tau[k] for k in x)
            b = tuple(tau[k] for k in y)
            sa, pa, ra = sort_parity(a)
            sb, pb, rb = sort_parity(b)
            if ra or rb or sa != sb:
                return []
            if (pa + pb) % 2:
                val_ = -val_
        return [(Fraction(val_), ())]


def run_case(item):
    kind, variant, part, singles, order, sp1, sp2, mtag = item
    from adcgen import Operators, GroundState, IntermediateStates
    from adcgen.indices import get_symbols
    from sympy import S, sympify
    model = Model(*mtag)
    gs = GroundState(Operators(part), first_order_singles=singles)
    isr = IntermediateStates(gs, variant)
    i1 = idx_for(sp1)
    i2 = idx_for(sp2, sp1.count("h"), sp1.count("p"))
    res = {"item": item, "model": model.tag}
    syms1, syms2 = get_symbols(i1), get_symbols(i2)
    target = syms1 + syms2
    val_opts = {}
    if kind == "isr":
        out = isr.overlap_isr(order, f"{sp1},{sp2}", f"{i1},{i2}")
        res["api"] = (f"IntermediateStates(GroundState(Operators('{part}'), {singles}), '{variant}')"
                      f".overlap_isr({order}, '{sp1},{sp2}', '{i1},{i2}')")
        o1 = tuple(IR.idx_ir(s) for s in syms1 if s.space == "occ")
        v1 = tuple(IR.idx_ir(s) for s in syms1 if s.space == "virt")
        o2 = tuple(IR.idx_ir(s) for s in syms2 if s.space == "occ")
        v2 = tuple(IR.idx_ir(s) for s in syms2 if s.space == "virt")
        A = DeltaRef(o1, v1, o2, v2, zero=(order > 0 or sp1 != sp2))
    else:
        out = isr.overlap_precursor(order, f"{sp1},{sp2}", f"{i1},{i2}")
        A = isr.overlap_precursor(order, f"{sp2},{sp1}", f"{i2},{i1}")
        A = sympify(A).expand()
        res["api"] = (f"IntermediateStates(GroundState(Operators('{part}'), {singles}), '{variant}')"
                      f".overlap_precursor({order}, '{sp1},{sp2}', '{i1},{i2}') vs swapped")
        val_opts = {"alias": {f"t{n}cc": f"t{n}" for n in range(1, 6)}}
    out = sympify(out).expand()
    res["out"] = str(out)[:300]
    res["n_terms"] = len(out.args) if out.is_Add else (0 if out is S.Zero else 1)
    oc = compare(A, out, target, model, timeout_ms=TIMEOUT, seed=seed(), val_opts=val_opts)
    res.update(oc.as_dict())
    res["witness"] = oc.witness
    return res


# ----------------------------------------------------------------------------
# s_root kernel: index chaining and prefactors of the products S*S*... with the
# precursor overlap blocks replaced by free symbolic tensors (stub)
# ----------------------------------------------------------------------------
def _sroot_coeff(m):
    """coefficient of x^m in (1 + x)^(-1/2) from the binomial recurrence"""
    c = Fraction(1)
    for q in range(1, m + 1):
        c = c * (Fraction(-1, 2) - (q - 1)) / q
    return c


def _compositions(n, parts, lo):
    if parts == 1:
        return [(n,)] if n >= lo else []
    out = []
    for first in range(lo, n - lo * (parts - 1) + 1):
        out += [(first,) + rest for rest in _compositions(n - first, parts - 1, lo)]
    return out


class SRootRef:
    """lambda^n coefficient of (1 + sum_k S^(k))^(-1/2) as a matrix function over the
    canonical composite indices (i<j.., a<b..) of the class; S^(k) blocks are free tensors"""
    irs = []

    def __init__(self, order, occ1, virt1, occ2, virt2):
        self.order, self.I, self.J = order, occ1 + virt1, occ2 + virt2
        self.no, self.nv = len(occ1), len(virt1)

    def _composites(self, model):
        from itertools import combinations
        occ = [o for o in model.orbs if model.is_occ(o)]
        virt = [o for o in model.orbs if not model.is_occ(o)]
        return [co + cv for co in combinations(occ, self.no) for cv in combinations(virt, self.nv)]

    def __call__(self, model, val, tau):
        from vlib.poly import SP
        I = tuple(tau[k] for k in self.I)
        J = tuple(tau[k] for k in self.J)
        comps = self._composites(model)

        def S(k, A, B):
            return SP.from_ml(val.tensor(f"So{k}", "A", A, B, 0))

        total = SP()
        for m in range(1, self.order // 2 + 1):
            cm = _sroot_coeff(m)
            for comp in _compositions(self.order, m, 2):
                # matrix product S^(k1) S^(k2) ... over restricted intermediate composites
                vec = {I: SP.const(1)}
                for pos, k in enumerate(comp):
                    last = pos == len(comp) - 1
                    new = {}
                    for A, coef in vec.items():
                        for B in ([J] if last else comps):
                            x = S(k, A, B)
                            if x.is_zero():
                                continue
                            new[B] = new.get(B, SP()) + coef * x
                    vec = new
                total = total + vec.get(J, SP()) * cm
        return total.to_ml()


def run_sroot(item):
    variant, space, order, mtag = item
    from adcgen import GroundState, Operators, IntermediateStates
    from adcgen.indices import get_symbols
    from adcgen.sympy_objects import AntiSymmetricTensor
    isr = IntermediateStates(GroundState(Operators("mp")), variant)

    def stub(order, block, indices):
        a, b = (get_symbols(x) for x in indices)
        return AntiSymmetricTensor(f"So{order}", tuple(a), tuple(b), 0)
    isr.overlap_precursor = stub          # environment stub: precursor overlap blocks are free tensors
    i1, i2 = idx_for(space), idx_for(space, space.count("h"), space.count("p"))
    res = {"item": item, "api": f"IntermediateStates(.., '{variant}').s_root({order}, '{space},{space}', "
                               f"'{i1},{i2}') with overlap_precursor stubbed by free tensors"}
    out = isr.s_root(order, f"{space},{space}", f"{i1},{i2}")
    res["out"] = str(out)[:300]
    s1, s2 = get_symbols(i1), get_symbols(i2)
    o1 = tuple(IR.idx_ir(s) for s in s1 if s.space == "occ")
    v1 = tuple(IR.idx_ir(s) for s in s1 if s.space == "virt")
    o2 = tuple(IR.idx_ir(s) for s in s2 if s.space == "occ")
    v2 = tuple(IR.idx_ir(s) for s in s2 if s.space == "virt")
    ref = SRootRef(order, o1, v1, o2, v2)
    model = Model(*mtag)
    spec = {(f"So{k}", len(s1), len(s2)): ("A", 0) for k in range(0, order + 1)}
    oc = compare(ref, out, list(s1) + list(s2), model, timeout_ms=TIMEOUT, seed=seed(), spec_extra=spec)
    res.update(oc.as_dict())
    res["witness"], res["model"] = oc.witness, model.tag
    return res


def main():
    global TIMEOUT
    ap = argparse.ArgumentParser()
    ap.add_argument("--tier", default="quick")
    ap.add_argument("--replay")
    a = ap.parse_args()
    if a.replay:
        import json
        p = json.load(open(a.replay))
        it = p["item"]
        it[-1] = tuple(it[-1])
        r = run_case(tuple(it))
        print(json.dumps({k: r.get(k) for k in ("status", "api", "out", "witness")}, indent=1, default=str))
        return 1 if r.get("status") == "differ" else 0
    quick = a.tier == "quick"
    TIMEOUT = 30000 if quick else 180000
    run = Run("C04", a.tier, "translation_validation")
    items = []
    max_order = 2 if quick else 3
    for variant, spaces in SPACES.items():
        for part in ("mp", "re"):
            for singles in (False, True):
                for sp1 in spaces:
                    for sp2 in spaces:
                        for n in range(max_order + 1):
                            big = len(sp1) + len(sp2)
                            if quick and part == "re" and n > 1:
                                continue
                            if quick and (big > 6 or (big == 6 and n > 1 and len(sp1) == len(sp2) and variant in ("dip", "dea"))):
                                continue
                            if not quick and big >= 8 and n > 2:
                                continue
                            if n == 3 and big > 6:
                                continue
                            nh = max(sp1.count("h"), sp2.count("h"))
                            np_ = max(sp1.count("p"), sp2.count("p"))
                            # model must host both index tuples and be non-trivial
                            mt = (max(2, nh + (0 if quick else 0)), max(2, np_))
                            if not quick and big <= 6:
                                mt = (max(3, nh), max(3, np_)) if big <= 4 else mt
                            items.append(("isr", variant, part, singles, n, sp1, sp2, mt))
                            if sp1 != sp2 and len(sp1) < len(sp2) and n <= 2:
                                items.append(("pre", variant, part, singles, n, sp1, sp2, mt))
                            if sp1 == sp2 and n == 2 and len(sp1) <= 2:
                                items.append(("pre", variant, part, singles, n, sp1, sp2, mt))
    # third-order precursor overlap of the lowest class (symmetry under exchange of the index
    # sets) and third-order orthonormality with first-order singles
    for variant, spaces in SPACES.items():
        lo = spaces[0]
        mt = (max(2, lo.count("h")), max(2, lo.count("p")))
        for part in ("mp",) if quick else ("mp", "re"):
            for singles in (False, True):
                items.append(("pre", variant, part, singles, 3, lo, lo, mt))
                if quick and singles:
                    items.append(("isr", variant, part, singles, 3, lo, lo, mt))
    # triples classes (two lower classes): overlaps with the lowest and the doubles class
    TRIPLES = {"pp": ("ph", "pphh", "ppphhh"), "ip": ("h", "phh", "pphhh"), "ea": ("p", "pph", "ppphh")}
    for variant, (low, dbl, tri) in TRIPLES.items():
        for singles in ((False,) if quick else (False, True)):
            for sp1, sp2 in ((low, tri), (tri, low), (dbl, tri)):
                for n in (0, 1) if quick else (0, 1, 2):
                    if variant == "pp" and (n > 1 or (quick and sp1 == dbl)):
                        continue
                    if n == 2 and sp1 == dbl:
                        continue
                    nh = max(sp1.count("h"), sp2.count("h"))
                    np_ = max(sp1.count("p"), sp2.count("p"))
                    items.append(("isr", variant, "mp", singles, n, sp1, sp2, (max(2, nh), max(2, np_))))
    if not quick:
        # fourth order: first order with products S*S inside S^(-1/2) (multi-index classes)
        items += [("isr", "dip", "mp", False, 4, "hh", "hh", (3, 2)),
                  ("isr", "dea", "mp", False, 4, "pp", "pp", (2, 3)),
                  ("isr", "ip", "mp", False, 4, "h", "h", (2, 2)),
                  ("isr", "ea", "mp", False, 4, "p", "p", (2, 2))]
    results = pmap(run_case, items, limit=1200 if quick else 7200, workers=14)
    # order expansion of S^(-1/2) = (1 + sum_k S^(k))^(-1/2) for all overlap values
    from vlib import series
    from adcgen import GroundState, Operators, IntermediateStates
    isr0 = IntermediateStates(GroundState(Operators("mp")), "pp")
    for r in series.check(lambda n, mo: isr0.expand_S_taylor(n, mo), half=True,
                          thorough=not quick, timeout_ms=TIMEOUT, seed=seed()):
        api = f"IntermediateStates.expand_S_taylor({r['order']}, min_order={r['min_order']})"
        run.add_outcome("series/s_root", r, sample={"api": api, "expansion": r["out"][:160], "verdict": r["status"]}
                        if r["status"] == "equal" and r["order"] >= 4 else None,
                        distinct_key=api, nontrivial=r["order"] >= r["min_order"])
        if r["status"] == "differ":
            run.violation(f"{api}", f"{api} = {r['out'][:200]} is not the lambda^{r['order']} coefficient of (1+x)^(-1/2)",
                          {"api": api, "output": r["out"], "witness": r.get("witness")})
        elif r["status"] == "harness":
            run.harness_error(f"series: solver model does not reproduce for {api}")
    sitems = []
    for variant, space, mt in (("pp", "ph", (2, 2)), ("ip", "h", (2, 2)), ("dip", "hh", (3, 2)),
                               ("dea", "pp", (2, 3)), ("ip", "phh", (3, 2)), ("ea", "pph", (2, 3)),
                               ("pp", "pphh", (2, 2))) + (() if quick else (("pp", "pphh", (3, 3)),)):
        for n in range(2, 7 if quick else 9):
            sitems.append((variant, space, n, mt))
    for r in pmap(run_sroot, sitems, limit=600, workers=14):
        st = r.get("status")
        run.add_outcome("s_root_kernel", r, sample={"api": r.get("api"), "expr": (r.get("out") or "")[:160],
                                                    "model": r.get("model"), "verdict": st}
                        if st == "equal" and r.get("item", (0, 0, 0))[2] >= 4 else None,
                        distinct_key=r.get("api"), nontrivial=True)
        if st == "differ":
            run.violation(f"{r['api']}", f"{r['api']} is not the lambda^n coefficient of S^(-1/2) over the restricted composite indices ({r['model']})",
                          {"part": "s_root", "item": list(r["item"]), "api": r["api"], "output": r.get("out"), "witness": r.get("witness")})
        if st == "error" and "HarnessError" in r.get("error", ""):
            run.harness_error(r["error"])
    nz = 0
    for r in results:
        st = r.get("status")
        it = r.get("item")
        part = f"{it[0]}/{it[1]}" if isinstance(it, tuple) else "?"
        nontriv = bool(r.get("n_terms"))
        nz += nontriv and st == "equal"
        run.add_outcome(part, r, sample={"api": r.get("api"), "model": r.get("model"),
                                        "terms_in_derived_expression": r.get("n_terms"),
                                        "verdict": st} if st == "equal" and nontriv else None,
                        distinct_key=(r.get("api"), r.get("model")), nontrivial=nontriv)
        if st == "differ":
            run.violation(f"{r['api']}@{r['model']}",
                          f"{r['api']} is not the expected overlap in {r['model']}",
                          {"item": list(it), "api": r["api"], "output": r["out"], "witness": r["witness"]})
        if st == "error" and "HarnessError" in r.get("error", ""):
            run.harness_error(r["error"])
    run.cov["nonempty_expressions_shown_zero_or_delta"] = nz
    if not nz:
        run.harness_error("no non-empty overlap expression was checked (vacuous)")
    run.cov["functions_encoded"] = [
        {"function": "IntermediateStates.overlap_isr / overlap_precursor / precursor / s_root / expand_S_taylor / intermediate_state, GroundState.norm_factor (run concretely, result encoded)",
         "source_sha": driver.src_hash(*FILES)}]
    run.cov["bounds"] = {
        "variants": list(SPACES), "orders": f"<= {max_order}",
        "classes": "the two lowest classes of each variant, all pairs" + (" (quick: pairs with <= 6 indices)" if quick else ""),
        "models": "n_o, n_v = max(2, number of h / p indices of the pair)" + ("" if quick else "; 3o3v for pairs with <= 4 indices"),
        "partitioning": "mp, re (quick: re up to order 1); with/without first-order singles",
        "z3_timeout_ms": TIMEOUT}
    run.cov["rule"] = "one case per (variant, class pair, order, model); non-trivial = the derived expression is non-empty"
    run.assumptions += [
        "ground-state amplitudes are free unknowns (bra amplitudes independent) for overlap_isr; identified (real) for the symmetry of overlap_precursor",
        "orders above the stated maximum and higher classes are outside the claim",
    ]
    sys.exit(run.finish())


if __name__ == "__main__":
    main()
