"""
C05  ISR properties and transition moments equal explicit matrix elements.

The real Properties.expec_block_contribution / trans_moment_space are run; the
returned scalar is compared by z3 with
   (1/(p_L p_R)) sum_{I,J restricted} X_I <I| D - <D>_0 |J>^(n) Y_J      resp.
   (1/p)         sum_{I restricted}   X_I <I| D [- <D>_0] |Psi^>^(n)
computed between intermediate states built explicitly on bit strings
(vlib/isr.py), for all integrals, operator matrices, amplitude vectors and
ground-state amplitudes (p = 1/sqrt(n_o! n_v!): documented normalisation).
"""
import argparse
import sys
from fractions import Fraction

from vlib import driver
from vlib import ir as IR
from vlib.driver import Run, pmap, seed
from vlib.model import Model
from vlib.poly import SP
from vlib.pt import PT
from vlib.isr import ISR, norm_pref_sq, vec_series_dot
from vlib.detref import GenOp
from vlib.tv import compare, perturb

FILES = ["adcgen/properties.py", "adcgen/intermediate_states.py", "adcgen/secular_matrix.py"]
TIMEOUT = 60000


def sqrt_sp(val, q):
    """sqrt of a positive rational as SP (rational * product of sqrt(prime))."""
    from sympy import sqrt, Rational
    from vlib.ir import _number, _norm_roots
    frac, roots = _number(sqrt(Rational(q)))
    frac, roots = _norm_roots(frac, roots)
    out = SP.const(frac)
    for p_, _ in roots:
        out = out * SP.from_ml(val.root(p_))
    return out


class PRef:
    irs = []

    def __init__(self, kind, lvar, rvar, singles, order, sp1, sp2, nc, na, subtract_gs):
        self.__dict__.update(locals())
        self._c = {}

    def setup(self, model, val):
        x = self._c.get(id(val))
        if x is None:
            pt = PT(model, val, variant="mp", singles=self.singles)
            li = ISR(pt, self.lvar, self.order)
            ri = li if self.rvar == self.lvar else ISR(pt, self.rvar, self.order)
            nc, na = self.nc, self.na

            def coef(P, R):
                return SP.from_ml(val.tensor("d", "A", tuple(P), tuple(R), 0))
            op = GenOp(pt.n, nc, na, coef)
            gs_expec = None
            if self.subtract_gs and nc == na:
                gs_expec = [pt.expectation_value(k, "d", nc) for k in range(self.order + 1)]
            x = (pt, li, ri, op, gs_expec)
            self._c[id(val)] = x
        return x

    def __call__(self, model, val, tau):
        pt, li, ri, op, gs_expec = self.setup(model, val)
        n = self.order
        tot = SP()
        if self.kind == "expec":
            for (I_o, I_v) in li.tuples(self.sp1):
                x = SP.from_ml(val.tensor("X", "M", tuple(I_v), tuple(I_o), 0))
                if x.is_zero():
                    continue
                s1, a = li.state("isr", self.sp1, I_o, I_v)
                for (J_o, J_v) in ri.tuples(self.sp2):
                    y = SP.from_ml(val.tensor("Y", "M", tuple(J_v), tuple(J_o), 0))
                    s2, b = ri.state("isr", self.sp2, J_o, J_v)
                    m = SP()
                    for kb in range(n + 1):
                        if a[1][kb].is_zero():
                            continue
                        for kk in range(n + 1 - kb):
                            ko = n - kb - kk
                            if b[0][kk].is_zero():
                                continue
                            if ko == 0:
                                m = m + a[1][kb].dot(op.apply(b[0][kk]))
                            if gs_expec is not None and not gs_expec[ko].is_zero():
                                m = m - a[1][kb].dot(b[0][kk]) * gs_expec[ko]
                    tot = tot + x * m * y
            scale = sqrt_sp(val, norm_pref_sq(self.sp1) * norm_pref_sq(self.sp2))
            return (tot * scale).to_ml()
        # transition moment with the normalised ground state
        isr = li if self.kind == "tm_left" else ri
        gk, gb = isr.gs()
        for (I_o, I_v) in isr.tuples(self.sp1):
            x = SP.from_ml(val.tensor("X", "M", tuple(I_v), tuple(I_o), 0))
            s1, a = isr.state("isr", self.sp1, I_o, I_v)
            m = SP()
            for kb in range(n + 1):
                if a[1][kb].is_zero():
                    continue
                for kk in range(n + 1 - kb):
                    ko = n - kb - kk
                    if gk[kk].is_zero():
                        continue
                    if ko == 0:
                        m = m + a[1][kb].dot(op.apply(gk[kk]))
                    if gs_expec is not None and not gs_expec[ko].is_zero():
                        m = m - a[1][kb].dot(gk[kk]) * gs_expec[ko]
            tot = tot + x * m
        scale = sqrt_sp(val, norm_pref_sq(self.sp1))
        return (tot * scale).to_ml()


def run_case(item):
    kind, lvar, rvar, singles, order, sp1, sp2, nc, na, subtract_gs, mtag = item
    from adcgen import Operators, GroundState, IntermediateStates, Properties
    from sympy import S, sympify
    model = Model(*mtag)
    gs = GroundState(Operators("mp"), first_order_singles=singles)
    l_isr = IntermediateStates(gs, lvar)
    r_isr = l_isr if rvar == lvar else IntermediateStates(gs, rvar)
    prop = Properties(l_isr) if rvar == lvar else Properties(l_isr, r_isr)
    res = {"item": item, "model": model.tag}
    pre = (f"Properties(isr_{lvar}" + (f", isr_{rvar}" if rvar != lvar else "") + f"; singles={singles})")
    if kind == "expec":
        out = prop.expec_block_contribution(order, f"{sp1},{sp2}", nc, subtract_gs)
        res["api"] = f"{pre}.expec_block_contribution({order}, '{sp1},{sp2}', {nc}, {subtract_gs})"
    elif kind == "tm_default":
        # operator string left to its documented default (creators / annihilators of the
        # variant's lowest space); the reference uses that default explicitly
        out = prop.trans_moment_space(order, sp1, None, None, "left", subtract_gs)
        res["api"] = f"{pre}.trans_moment_space({order}, '{sp1}', lr_isr='left', subtract_gs={subtract_gs}) [default operator string]"
    elif kind in ("sum_expec", "sum_tm"):
        pass
    else:
        lr = "left" if kind == "tm_left" else "right"
        out = prop.trans_moment_space(order, sp1, nc, na, lr, subtract_gs)
        res["api"] = f"{pre}.trans_moment_space({order}, '{sp1}', {nc}, {na}, '{lr}', {subtract_gs})"
    if kind in ("sum_expec", "sum_tm"):
        # functions that only sum block / space contributions: compared with the sum, over the
        # harness' own ADC(n) truncation table (class mu, nu present if <= n // 2, block
        # (mu, nu) through order n - (mu + nu), space mu through n - mu), of the individually
        # verified contributions
        n_adc, o = sp2, order
        SPL = {"pp": ["ph", "pphh"], "ip": ["h", "phh"], "ea": ["p", "pph"], "dip": ["hh", "phhh"],
               "dea": ["pp", "ppph"]}
        A = S.Zero
        if kind == "sum_expec":
            out = prop.expectation_value(n_adc, nc, o, subtract_gs)
            res["api"] = f"{pre}.expectation_value({n_adc}, {nc}, order={o}, subtract_gs={subtract_gs}) vs the sum of its blocks"
            for mu, sl in enumerate(SPL[lvar]):
                for nu, sr in enumerate(SPL[rvar]):
                    if mu > n_adc // 2 or nu > n_adc // 2 or o > n_adc - (mu + nu):
                        continue
                    A += prop.expec_block_contribution(o, f"{sl},{sr}", nc, subtract_gs)
        else:
            out = prop.trans_moment(n_adc, nc, na, o, "left", subtract_gs)
            res["api"] = f"{pre}.trans_moment({n_adc}, {nc}, {na}, order={o}, 'left', {subtract_gs}) vs the sum of its spaces"
            for mu, sl in enumerate(SPL[lvar]):
                if mu > n_adc // 2 or o > n_adc - mu:
                    continue
                A += prop.trans_moment_space(o, sl, nc, na, "left", subtract_gs)
        A = sympify(A).expand()
        out = sympify(out).expand()
        res["out"] = str(out)[:300]
        res["n_terms"] = len(out.args) if out.is_Add else (0 if out is S.Zero else 1)
        oc = compare(A, out, [], model, timeout_ms=TIMEOUT, seed=seed())
        res.update(oc.as_dict())
        res["witness"] = oc.witness
        return res
    A = PRef("tm_left" if kind == "tm_default" else kind, lvar, rvar, singles, order, sp1, sp2, nc, na,
             subtract_gs)
    out = sympify(out).expand()
    res["out"] = str(out)[:300]
    res["n_terms"] = len(out.args) if out.is_Add else (0 if out is S.Zero else 1)
    oc = compare(A, out, [], model, timeout_ms=TIMEOUT, seed=seed())
    res.update(oc.as_dict())
    res["witness"] = oc.witness
    if oc.status == "equal" and out is not S.Zero:
        oc2 = compare(A, perturb(out, seed() + order), [], model, timeout_ms=TIMEOUT,
                      seed=seed(), replay=False)
        res["guard"] = oc2.status
    return res


def main():
    global TIMEOUT
    ap = argparse.ArgumentParser()
    ap.add_argument("--tier", default="quick")
    ap.add_argument("--replay")
    a = ap.parse_args()
    if a.replay:
        import json
        p = json.load(open(a.replay))
        it = p["item"]
        it[-1] = tuple(it[-1])
        r = run_case(tuple(it))
        print(json.dumps({k: r.get(k) for k in ("status", "api", "out", "witness")}, indent=1, default=str))
        return 1 if r.get("status") == "differ" else 0
    quick = a.tier == "quick"
    TIMEOUT = 60000 if quick else 300000
    run = Run("C05", a.tier, "translation_validation")
    SP2 = {"pp": ["ph", "pphh"], "ip": ["h", "phh"], "ea": ["p", "pph"],
           "dip": ["hh", "phhh"], "dea": ["pp", "ppph"]}
    DEF = {"pp": (1, 1), "ip": (0, 1), "ea": (1, 0), "dip": (0, 2), "dea": (2, 0)}
    items = []

    def model_for(*spaces):
        nh = max([s.count("h") for s in spaces] + [2])
        np_ = max([s.count("p") for s in spaces] + [2])
        return (nh, np_)
    variants = ["pp", "ip", "ea"] if quick else list(SP2)
    for v in variants:
        lo, hi = SP2[v]
        for (s1, s2, mo) in ((lo, lo, 2), (lo, hi, 1), (hi, lo, 1), (hi, hi, 0 if quick else 1)):
            for n in range(mo + 1):
                if len(s1) + len(s2) >= 8 and (quick or n > 0):
                    continue
                for sg in (True, False):
                    for npart in ((1,) if quick and (n > 1 or s1 != lo) else (1, 2)):
                        if npart == 2 and n > 1 and quick:
                            continue
                        items.append(("expec", v, v, False, n, s1, s2, npart, npart, sg, model_for(s1, s2)))
        nc, na = DEF[v]
        for (s1, mo) in ((lo, 2), (hi, 2)):
            for n in range(mo + 1):
                if len(s1) >= 4 and n > 1 and quick and v != "pp":
                    continue
                items.append(("tm_left", v, v, False, n, s1, "", nc, na, True, model_for(s1)))
                if v == "pp":
                    items.append(("tm_left", v, v, False, n, s1, "", nc, na, False, model_for(s1)))
        # the default operator string (n_create = n_annihilate = None)
        items.append(("tm_default", v, v, False, 1, lo, "", nc, na, True, model_for(lo)))
        for n in (0, 1) if quick else (0, 1, 2):
            items.append(("tm_default", v, v, False, n, hi, "", nc, na, True, model_for(hi)))
        # a non-default operator string
        if v == "pp":
            items.append(("tm_left", v, v, False, 1, lo, "", 2, 2, True, model_for(lo)))
        if v == "ip":
            items.append(("tm_left", v, v, False, 1, lo, "", 1, 2, True, model_for(lo)))
            items.append(("tm_left", v, v, False, 1, hi, "", 1, 2, True, model_for(hi)))
        if v == "ea":
            items.append(("tm_left", v, v, False, 1, lo, "", 2, 1, True, model_for(lo)))
    if quick:
        # dip / dea in the quick tier: the lowest-class diagonal block, the second-order coupling to
        # the doubles class and the second-order doubles transition moment (the first orders at which
        # the projection of the doubles precursor onto the hh / pp states does not vanish)
        for v, m_hi in (("dip", (3, 2)), ("dea", (2, 3))):
            lo, hi = SP2[v]
            nc, na = DEF[v]
            items.append(("tm_left", v, v, False, 2, hi, "", nc, na, True, m_hi))
            items.append(("tm_left", v, v, False, 1, lo, "", nc, na, True, (2, 2)))
            items.append(("expec", v, v, False, 2, lo, hi, 1, 1, True, m_hi))
            items.append(("expec", v, v, False, 2, hi, lo, 1, 1, True, m_hi))
            items.append(("expec", v, v, False, 1, lo, lo, 1, 1, True, (2, 2)))
            items.append(("expec", v, v, False, 2, lo, lo, 1, 1, True, (2, 2)))
    # mixed left / right variants
    for (lv, rv) in (("ip", "pp"), ("pp", "ea")):
        lo_l, lo_r = SP2[lv][0], SP2[rv][0]
        items.append(("expec", lv, rv, False, 0, lo_l, lo_r, 1, 1, True, model_for(lo_l, lo_r)))
        items.append(("expec", lv, rv, False, 1, lo_l, lo_r, 1, 1, True, model_for(lo_l, lo_r)))
        nc, na = DEF[rv]
        items.append(("tm_right", lv, rv, False, 1, lo_r, "", nc, na, True, model_for(lo_r)))
        items.append(("tm_right", lv, rv, False, 2, lo_r, "", nc, na, True, model_for(lo_r)))
    # first-order singles in the ground state: coupling blocks and doubles transition moments at
    # first order (the lower-class projection of the doubles precursor is then non-zero)
    if quick:
        for v in variants:
            lo, hi = SP2[v]
            nc, na = DEF[v]
            items.append(("expec", v, v, True, 1, lo, hi, 1, 1, True, model_for(lo, hi)))
            items.append(("expec", v, v, True, 1, hi, lo, 1, 1, True, model_for(lo, hi)))
            items.append(("tm_left", v, v, True, 1, hi, "", nc, na, True, model_for(hi)))
            items.append(("expec", v, v, True, 2, lo, lo, 1, 1, True, model_for(lo)))
    # third order of a diagonal block with subtract_gs: the scalar terms e0^(b) <I^(a)|J^(c)> with
    # b >= 1 first matter here (e0^(1) != 0 needs first-order singles or a two-particle operator)
    for v in (("ip", "ea") if quick else variants):
        lo, hi = SP2[v]
        items.append(("expec", v, v, True, 3, lo, lo, 1, 1, True, model_for(lo)))
        if not quick:
            items.append(("expec", v, v, True, 3, lo, lo, 1, 1, False, model_for(lo)))
    # summing functions: (kind, left, right, singles, order, -, adc_order, n_c, n_a, subtract_gs, model)
    for v in variants:
        nc, na = DEF[v]
        for n_adc, o in ((2, 0), (2, 1), (1, 1)) + (() if quick else ((2, 2), (3, 1))):
            items.append(("sum_expec", v, v, False, o, "", n_adc, 1, 1, True, (2, 2)))
            items.append(("sum_tm", v, v, False, o, "", n_adc, nc, na, True, (2, 2)))
    items.append(("sum_expec", "ip", "pp", False, 0, "", 2, 1, 1, True, (2, 2)))
    items.append(("sum_expec", "ip", "pp", False, 1, "", 2, 1, 1, True, (2, 2)))
    if not quick:
        extra = []
        for it in items:
            if it[4] <= 1 and it[0] == "expec" and it[1] == it[2]:  # noqa
                extra.append(it[:3] + (True,) + it[4:])
            if it[-1] == (2, 2) and it[4] <= 2 and isinstance(it[6], str) and len(it[5]) + len(it[6]) <= 4:
                extra.append(it[:-1] + ((3, 3),))
        items += extra
    items.sort(key=lambda it: -(it[4] * 10 + len(it[5]) + (len(it[6]) if isinstance(it[6], str) else 8)))
    results = pmap(run_case, items, limit=1500 if quick else 14000, workers=15)
    guards = [0, 0]
    for r in results:
        st = r.get("status")
        it = r.get("item")
        part = f"{it[0]}/{it[1]}" + (f"-{it[2]}" if isinstance(it, tuple) and it[1] != it[2] else "") if isinstance(it, tuple) else "?"
        nontriv = bool(r.get("n_terms"))
        run.add_outcome(part, r, sample={"api": r.get("api"), "model": r.get("model"),
                                        "terms": r.get("n_terms"), "verdict": st}
                        if st == "equal" and nontriv else None,
                        distinct_key=(r.get("api"), r.get("model")), nontrivial=nontriv)
        if st == "differ":
            run.violation(f"{r['api']}@{r['model']}",
                          f"{r['api']} differs from the explicit matrix element in {r['model']}",
                          {"item": list(it), "api": r["api"], "output": r["out"], "witness": r["witness"]})
        if st == "error" and "HarnessError" in r.get("error", ""):
            run.harness_error(r["error"])
        if "guard" in r:
            guards[1] += 1
            guards[0] += r["guard"] == "differ"
    run.cov["vacuity_guard"] = {"perturbed_outputs_detected": guards[0], "tried": guards[1]}
    if guards[1] and guards[0] < guards[1] // 2:
        run.harness_error(f"vacuity guard: only {guards[0]}/{guards[1]} perturbed outputs distinguishable")
    run.cov["functions_encoded"] = [
        {"function": "Properties.operator / expec_block_contribution / trans_moment_space (run concretely, result encoded)",
         "source_sha": driver.src_hash(*FILES)},
        {"function": "reference: vlib/isr.py + vlib/pt.py + detref.GenOp on bit strings"}]
    run.cov["bounds"] = {
        "variants": variants + ["ip/pp", "pp/ea (mixed)"] + (["dip, dea: lowest diagonal block order <=2, coupling blocks order 2, doubles transition moment order 2"] if quick else []),
        "orders": "expectation value: lowest/lowest <=2, couplings <=1, second class diagonal 0" + (" (thorough 1)" if not quick else "") + "; transition moments <=2",
        "operators": "1- and 2-particle for expectation values; default string per variant plus one non-default string for transition moments",
        "models": "n_o, n_v = max(2, number of h / p indices)" + ("" if quick else "; 3o3v for small blocks"),
        "z3_timeout_ms": TIMEOUT}
    run.cov["rule"] = "one case per (API call, model); non-trivial = non-empty derived expression"
    run.assumptions += [
        "ground-state corrections are free amplitude unknowns in adcgen's convention; operator matrix d and amplitude vectors X, Y free",
        "documented normalisation: unrestricted sums with p = 1/sqrt(n_o! n_v!) per amplitude vector",
        "mp partitioning",
    ]
    sys.exit(run.finish())


if __name__ == "__main__":
    main()
