"""
C01  Wick evaluation equals the Fermi-vacuum expectation value.

(a) pointwise, symbolic orbitals: the real `wicks` is run on an operator string;
    its delta polynomial is compared by z3 with a bit-string vev circuit in which
    every index is a symbolic orbital position (QF_LIA + Bool); normal-ordered
    groups are given their definition.
(b) contracted with tensors, with delta evaluation and block rules: the output of
    `wicks` is compared (z3, symbolic tensor entries) with
    sum_assignments prod T * vev evaluated on concrete determinants.
"""
import argparse
import random
import sys
import time
from fractions import Fraction

import z3
from sympy import Mul, S, Add, Rational
from sympy.physics.secondquant import F, Fd, NO

from vlib import driver, detref
from vlib import ir as IR
from vlib.driver import Run, pmap, seed
from vlib.model import Model
from vlib.tv import compare, pick_model, HarnessError
from vlib.gen import POOL, make_tensor

FILES = ["adcgen/func.py", "adcgen/rules.py", "adcgen/sympy_objects.py"]
TIMEOUT = 20000
NAMES = {"o": ["i", "j", "k", "l", "m", "n"], "v": ["a", "b", "c", "d", "e", "f"],
         "g": ["p", "q", "r", "s", "t", "u"]}


def _sym(n):
    from adcgen.indices import get_symbols
    return get_symbols(n)[0]


# ----------------------------------------------------------------------------
# (a) pointwise
# ----------------------------------------------------------------------------
def build_string(spec):
    """spec: (ops, groups) with ops = [(kind '+'/'-', index name)], groups = [(a,b)]"""
    ops, groups = spec
    fac = [(Fd if k == "+" else F)(_sym(n)) for k, n in ops]
    parts, pos = [], 0
    for a, b in groups:
        parts.extend(fac[pos:a])
        parts.append(NO(Mul(*fac[a:b])))
        pos = b
    parts.extend(fac[pos:])
    return Mul(*parts)


def delta_poly_z3(terms, pos, model, string_idx):
    """adcgen's delta polynomial as a z3 Int/Real term; indices that are not on
    the operator string are summed over their space."""
    total = z3.RealVal(0)
    for coef, roots, factors in terms:
        if roots:
            raise HarnessError("sqrt prefactor in a Wick result")
        inner = sorted({s for f in factors for s in (f[1], f[2])} - set(string_idx))
        ranges = [model.idx_range(s) for s in inner]
        from itertools import product
        tsum = z3.RealVal(0)
        for combo in product(*ranges):
            loc = dict(zip(inner, combo))
            conds = []
            for f in factors:
                if f[0] != "d":
                    raise HarnessError(f"non-delta factor {f} in a pointwise Wick result")
                x = loc.get(f[1], pos.get(f[1]))
                y = loc.get(f[2], pos.get(f[2]))
                conds.append(x == y)
            tsum = tsum + z3.If(z3.And(*conds) if conds else z3.BoolVal(True), 1, 0)
        total = total + z3.RealVal(str(coef)) * tsum
    return total


def run_pointwise(item):
    from adcgen.func import wicks
    spec, mtag = item
    model = Model(*mtag)
    try:
        expr = build_string(spec)
    except AttributeError:      # sympy cannot build NO(...) around a_p**2
        return {"item": item, "status": "skipped"}
    res = {"item": item, "in": str(expr), "model": model.tag}
    if expr is S.Zero or expr.is_number:
        res["status"] = "skipped"
        return res
    # the input as constructed by sympy (NO may reorder/scale at construction)
    try:
        irs = IR.expr_ir(expr)
    except IR.IRError as exc:       # e.g. NO(...)**2 built by sympy
        res.update(status="skipped", note=str(exc))
        return res
    try:
        out = wicks(expr)
    except NotImplementedError as exc:
        res.update(status="skipped", note=f"documented refusal: {exc}")
        return res
    except Exception as exc:
        res.update(status="differ", out=f"raised {type(exc).__name__}: {exc}",
                   witness={"raised": f"{type(exc).__name__}: {exc}"}, crash=True)
        return res
    res["out"] = str(out)
    if out.atoms(F) or out.atoms(Fd):
        res.update(status="differ", witness={"operators left in the result": str(out)})
        return res
    oir = IR.expr_ir(out)
    t0 = time.time()
    s = z3.Solver()
    s.set("timeout", TIMEOUT)
    s.set("random_seed", seed() % 2 ** 31)
    pos = {}
    lhs = z3.RealVal(0)
    string_idx = set()
    rhs = z3.RealVal(0)
    for term in irs:
        comm, ops, groups = detref._ops_of_term(term)
        if comm:
            raise HarnessError("unexpected commuting factor in a pointwise string")
        for _, key in ops:
            string_idx.add(key)
            if key not in pos:
                x = z3.Int(f"x_{key[0]}_{key[3]}")
                pos[key] = x
                r = model.idx_range(key)
                s.add(x >= r[0], x <= r[-1])
        coef = term[0]
        rhs = rhs + z3.RealVal(str(coef)) * z3.ToReal(
            detref.vev_circuit(z3, ops, pos, model.n_o, len(model.orbs), groups))
    lhs = delta_poly_z3(oir, pos, model, string_idx)
    s.add(lhs != rhs)
    r = str(s.check())
    dt = time.time() - t0
    res.update(solver_s=dt, queries=1)
    if r == "unsat":
        res.update(status="equal", unsat=1)
        return res
    if r != "sat":
        res.update(status="unknown", unknown=1, note=r)
        return res
    res["sat"] = 1
    m = s.model()
    asg = {k: m.eval(x, model_completion=True).as_long() for k, x in pos.items()}
    # concrete replay: determinant-space vev vs the delta polynomial
    tot_ref = Fraction(0)
    for term in irs:
        _, ops, groups = detref._ops_of_term(term)
        cops = [(k, asg[key]) for k, key in ops]
        sign = 1
        for a, b in groups:
            sg, new = detref.normal_order_concrete(cops[a:b], model.n_o)
            sign *= sg
            cops[a:b] = new
        tot_ref += term[0] * sign * detref.vev_concrete(cops, model.n_o)
    tot_out = Fraction(0)
    from itertools import product
    for coef, roots, factors in oir:
        inner = sorted({x for f in factors for x in (f[1], f[2])} - string_idx)
        for combo in product(*[model.idx_range(x) for x in inner]):
            loc = dict(asg)
            loc.update(zip(inner, combo))
            if all(loc[f[1]] == loc[f[2]] for f in factors):
                tot_out += coef
    if tot_ref == tot_out:
        raise HarnessError(f"vev circuit model does not reproduce: {asg}")
    res.update(status="differ", witness={
        "orbital_assignment": {IR.idx_str(k): v for k, v in asg.items()},
        "model_space": model.tag, "vev_bitstring": str(tot_ref), "wicks_value": str(tot_out)})
    return res


def canon_spec(spec):
    """strings that differ only by renaming indices within a space are the same shape"""
    ops, groups = spec
    ren, cnt = {}, {"o": 0, "v": 0, "g": 0}
    out = []
    for k, n in ops:
        sp = "o" if n[0] in "ijklmn" else ("v" if n[0] in "abcdef" else "g")
        if n not in ren:
            ren[n] = NAMES[sp][cnt[sp]]
            cnt[sp] += 1
        out.append((k, ren[n]))
    return (tuple(out), tuple(groups))


def gen_strings(rng, length, n, exhaustive=False, with_no=0.5):
    seen, out = set(), []
    idxpool = ["i", "j", "a", "b", "p", "q"]
    if exhaustive:
        from itertools import product
        for kinds in product("+-", repeat=length):
            for names in product(idxpool, repeat=length):
                spec = canon_spec((tuple(zip(kinds, names)), ()))
                if spec not in seen:
                    seen.add(spec)
                    out.append(spec)
        return out
    tries = 0
    while len(out) < n and tries < n * 50:
        tries += 1
        ops = tuple((rng.choice("+-"), rng.choice(idxpool)) for _ in range(length))
        groups = []
        if rng.random() < with_no and length >= 2:
            a = rng.randrange(0, length - 1)
            b = rng.randrange(a + 2, length + 1)
            groups.append((a, b))
            if rng.random() < 0.4 and length - b >= 2:
                a2 = rng.randrange(b, length - 1)
                b2 = rng.randrange(a2 + 2, length + 1)
                groups.append((a2, b2))
        spec = canon_spec((ops, tuple(groups)))
        if spec in seen:
            continue
        seen.add(spec)
        out.append(spec)
    return out


def gen_balanced(rng, n, max_len=8):
    """Strings made of number-conserving blocks (excitation, de-excitation, one- and
    two-particle operator blocks over occupied / virtual / general indices), each block
    bare or normal ordered: most of them have a non-vanishing expectation value, and several
    general-index operators inside normal-ordered groups occur together."""
    blocks = {"X": "+v-o", "D": "+o-v", "G1": "+g-g", "G2": "+g+g-g-g", "O": "+o-o", "V": "+v-v",
              "XG": "+g-o", "DG": "+o-g"}
    seen, out, tries = set(), [], 0
    while len(out) < n and tries < n * 60:
        tries += 1
        kinds = [rng.choice(list(blocks)) for _ in range(rng.randint(2, 4))]
        if rng.random() < 0.5:
            kinds = ["D"] + kinds[:2] + ["X"]
        ops, groups, used = [], [], {"o": 0, "v": 0, "g": 0}
        for kd in kinds:
            pat = blocks[kd]
            start = len(ops)
            for q in range(0, len(pat), 2):
                sp = pat[q + 1]
                if used[sp] and rng.random() < 0.15:
                    nm = NAMES[sp][rng.randrange(used[sp])]
                else:
                    if used[sp] >= len(NAMES[sp]):
                        break
                    nm = NAMES[sp][used[sp]]
                    used[sp] += 1
                ops.append((pat[q], nm))
            if rng.random() < 0.6 and len(ops) - start >= 2:
                groups.append((start, len(ops)))
        if not 2 <= len(ops) <= max_len:
            continue
        spec = canon_spec((tuple(ops), tuple(groups)))
        if spec not in seen:
            seen.add(spec)
            out.append(spec)
    return out


# ----------------------------------------------------------------------------
# (b) contracted with tensors
# ----------------------------------------------------------------------------
def build_contracted(sd):
    rng = random.Random(sd)
    from adcgen.sympy_objects import AntiSymmetricTensor, Amplitude
    mode = rng.choice(["free", "free", "lib"])
    if mode == "lib":
        from adcgen import Operators, GroundState
        variant = rng.choice(["mp", "re"])
        h = Operators(variant)
        gs = GroundState(h, first_order_singles=rng.random() < 0.5)
        which = rng.choice(["e", "amp1", "amp2", "d1", "h0amp"])
        if which == "e":
            op, rules = h.h1
            expr = op * gs.psi(1, "ket")
        elif which == "amp1":
            op, rules = h.h1
            bra = h.excitation_operator(creation="ij", annihilation="ab")
            expr = bra * op
        elif which == "amp2":
            op, rules = h.h1
            bra = rng.choice([h.excitation_operator(creation="i", annihilation="a"),
                              h.excitation_operator(creation="ij", annihilation="ab")])
            expr = bra * op * gs.psi(1, "ket")
        elif which == "h0amp":
            op, rules = h.h0
            bra = h.excitation_operator(creation="ij", annihilation="ab")
            expr = bra * op * gs.psi(1, "ket")
        else:
            op, rules = h.operator(1, 1)
            expr = gs.psi(1, "bra") * op * gs.psi(1, "ket")
            rules = None
        return expr.expand(), rules, f"lib:{variant}:{which}"
    # free products: tensors carrying every operator index
    n_ops = rng.choice([2, 4, 4, 6])
    sps = "ovg"
    ops = []
    for _ in range(n_ops):
        sp = rng.choice(sps)
        ops.append((rng.choice("+-"), _sym(rng.choice(NAMES[sp][:3]))))
    idx_needed = [s for _, s in ops]
    rng.shuffle(idx_needed)
    tensors = []
    pos = 0
    while pos < len(idx_needed):
        r = rng.choice([2, 2, 4]) if len(idx_needed) - pos >= 4 else 2
        chunk = idx_needed[pos:pos + r]
        pos += r
        if len(chunk) == 1:
            chunk.append(_sym(rng.choice(NAMES["g"])))
        name = rng.choice(["f", "d", "t2", "Y"]) if len(chunk) == 2 else rng.choice(["V", "w2", "t2", "Y"])
        h = len(chunk) // 2
        # amplitudes (ground-state t2 with singles and doubles under one name, ADC vector Y)
        # are objects of class Amplitude
        C_ = Amplitude if name in ("t2", "Y") else AntiSymmetricTensor
        t = C_(name, tuple(chunk[:h]), tuple(chunk[h:]))
        if t is S.Zero:
            return S.Zero, None, "free"
        tensors.append(t)
    fac = [(Fd if k == "+" else F)(s) for k, s in ops]
    if any(fac[n] == fac[n + 1] for n in range(len(fac) - 1)):
        return S.Zero, None, "free"      # a_p a_p: trivially zero, sympy prints a power
    if rng.random() < 0.4 and n_ops >= 4:
        a = rng.randrange(0, n_ops - 1)
        b = rng.randrange(a + 2, n_ops + 1)
        fac = fac[:a] + [NO(Mul(*fac[a:b]))] + fac[b:]
    expr = Mul(*tensors) * Mul(*fac) * rng.choice([1, Rational(1, 2), -1])
    rng2 = random.Random(sd * 2654435761 % (2 ** 31) + 3)
    const = []
    if rng2.random() < 0.3:
        # an operator-free term next to the operator product (e.g. the constant part of H - E0):
        # it takes part in the block rules like every other term
        x_, y_ = _sym(rng2.choice(NAMES[rng2.choice("ov")][3:5])), _sym(rng2.choice(NAMES[rng2.choice("ov")][3:5]))
        if x_ != y_:
            const = [AntiSymmetricTensor(rng2.choice(["f", "d"]), (x_,), (y_,)),
                     AntiSymmetricTensor("w1", (x_,), (y_,))]
            expr = expr + rng2.choice([2, -1, Rational(1, 2)]) * Mul(*const)
    rules = None
    if rng.random() < 0.5:
        from adcgen.rules import Rules
        forb = {}
        from adcgen.sympy_objects import SymbolicTensor
        for t in sorted(set(x.name for x in Mul(*(tensors + const)).atoms(SymbolicTensor))):
            blocks = ["oo", "ov", "vv", "vo", "oooo", "ooov", "oovv", "ovov", "ovvv", "vvvv",
                      "ovoo", "vvoo", "vvov"]
            forb[t] = rng.sample(blocks, rng.randint(1, len(blocks) // 2))
        rules = Rules(forb)
    return expr, rules, "free"


def run_contracted(item):
    from adcgen.func import wicks
    sd, skd = item
    expr, rules, tag = build_contracted(sd)
    res = {"item": item, "in": str(expr)[:400], "tag": tag, "skd": skd}
    if expr is S.Zero:
        res["status"] = "skipped"
        return res
    try:
        out = wicks(expr, rules=rules, simplify_kronecker_deltas=skd)
    except NotImplementedError as exc:
        res.update(status="skipped", note=f"documented refusal: {exc}")
        return res
    except Exception as exc:
        res.update(status="differ", out=f"raised {type(exc).__name__}: {exc}",
                   witness={"raised": f"{type(exc).__name__}: {exc}"}, crash=True)
        return res
    res["out"] = str(out)[:400]
    forbidden = None
    if rules is not None and rules._forbidden_blocks:
        if not skd:
            # without delta evaluation the tensors of the result may still carry
            # general indices, on which the block rule is not defined -> only
            # check rules together with delta evaluation
            res["status"] = "skipped"
            return res
        forbidden = {k: set(v) for k, v in rules._forbidden_blocks.items()}
    irs = IR.expr_ir(expr)
    # target indices: those that occur on no operator and only once (none for the
    # generated products: every index sits on an operator and a tensor)
    from adcgen.indices import Index
    opidx = set()
    for t in irs:
        _, ops, _g = detref._ops_of_term(t)
        opidx |= {k for _, k in ops}
    cnt = {}
    for t in irs[:1]:
        for x in IR.term_indices(t):
            cnt[x] = cnt.get(x, 0) + 1
    Tir = {x for x, c in cnt.items() if c == 1}
    allobj = {IR.idx_ir(x): x for x in expr.atoms(Index)}
    target = [allobj[k] for k in Tir]

    def ref(model, val, tau):
        return detref.opterm_value(irs, model, val, tau, forbidden)
    ref.irs = [[(t[0], t[1], tuple(f for f in t[2] if f[0] in "tn")) for t in irs]]
    cands = [Model(2, 2), Model(2, 1), Model(1, 1)]
    model = pick_model([irs, IR.expr_ir(out)], Tir, cands, budget=400000)
    oc = compare(ref, out, target, model, timeout_ms=TIMEOUT, seed=seed())
    res.update(oc.as_dict())
    res["model"], res["witness"] = model.tag, oc.witness
    res["nonzero"] = out is not S.Zero
    return res


def main():
    global TIMEOUT
    ap = argparse.ArgumentParser()
    ap.add_argument("--tier", default="quick")
    ap.add_argument("--replay")
    a = ap.parse_args()
    if a.replay:
        import json
        p = json.load(open(a.replay))
        it = p["item"]
        if p.get("part") == "pointwise":
            spec = (tuple(tuple(x) for x in it[0][0]), tuple(tuple(g) for g in it[0][1]))
            r = run_pointwise((spec, tuple(it[1])))
        else:
            r = run_contracted(tuple(it))
        print(json.dumps({k: r.get(k) for k in ("status", "in", "out", "witness")},
                         indent=1, default=str))
        return 1 if r.get("status") == "differ" else 0
    quick = a.tier == "quick"
    run = Run("C01", a.tier, "translation_validation")
    TIMEOUT = 20000 if quick else 120000
    rng = random.Random(seed() * 7919 + 1)
    specs = []
    specs += gen_strings(rng, 2, 0, exhaustive=True)
    if quick:
        specs += gen_strings(rng, 4, 220, with_no=0.0)
        specs += gen_strings(rng, 4, 120, with_no=1.0)
        specs += gen_strings(rng, 6, 60, with_no=0.4)
        specs += gen_strings(rng, 3, 20, with_no=0.3)
        specs += gen_balanced(rng, 80)
    else:
        specs += gen_strings(rng, 4, 0, exhaustive=True)
        specs += gen_strings(rng, 4, 1500, with_no=1.0)
        specs += gen_strings(rng, 6, 4000, with_no=0.4)
        specs += gen_strings(rng, 8, 300, with_no=0.4)
        specs += gen_strings(rng, 3, 100, with_no=0.3)
        specs += gen_strings(rng, 5, 100, with_no=0.3)
        specs += gen_balanced(rng, 2500)
    mt = (2, 2) if quick else (3, 3)
    items = [(sp, mt if len(sp[0]) <= 6 else (2, 2)) for sp in specs]
    results = pmap(run_pointwise, items, limit=300, chunksize=4)
    for r in results:
        st = r.get("status")
        spec = r["item"][0] if isinstance(r.get("item"), tuple) else ((), ())
        part = f"pointwise/len{len(spec[0])}" + ("/NO" if spec[1] else "")
        run.add_outcome(part, r, sample={"string": r.get("in"), "wicks": (r.get("out") or "")[:200],
                                        "model": r.get("model"), "verdict": st}
                        if st == "equal" and len(spec[0]) >= 4 and r.get("out") != "0" else None,
                        distinct_key=("pw", spec), nontrivial=True)
        if st == "differ":
            kind = "crash" if r.get("crash") else "value"
            fp = f"wicks-pointwise:{kind}:{'NO-general' if _no_general(spec) else r['in']}" \
                if r.get("crash") else f"wicks-pointwise:value:{r['in']}"
            run.violation(fp, f"wicks({r['in']}) -> {r.get('out', '')[:200]}",
                          {"part": "pointwise", "item": [list(map(list, [list(spec[0]), list(spec[1])])), list(r['item'][1])],
                           "api": "adcgen.func.wicks", "input": r["in"],
                           "output": r.get("out"), "witness": r.get("witness")})
        if st == "error" and "HarnessError" in r.get("error", ""):
            run.harness_error(r["error"])
    # (b)
    n = 200 if quick else 2500
    base = seed() * 1000003 + 100
    citems = [(base + k, bool(k % 2)) for k in range(n)]
    cres = pmap(run_contracted, citems, limit=300)
    for r in cres:
        st = r.get("status")
        part = "contracted/" + (r.get("tag", "?").split(":")[0]) + ("/deltas-evaluated" if r.get("skd") else "/raw")
        run.add_outcome(part, r, sample={"in": r.get("in"), "out": r.get("out"),
                                        "model": r.get("model"), "verdict": st}
                        if st == "equal" and r.get("nonzero") else None,
                        distinct_key=("ct", r.get("in"), r.get("skd")),
                        nontrivial=bool(r.get("nonzero")))
        if st == "differ":
            crash = bool(r.get("crash"))
            fp = (f"wicks-contracted:crash:{r.get('out')}" if crash
                  else f"wicks-contracted:value:{r['in']}")
            run.violation(fp, f"wicks({r['in'][:200]}) -> {r.get('out', '')[:200]}",
                          {"part": "contracted", "item": list(r["item"]), "api": "adcgen.func.wicks",
                           "input": r["in"], "output": r.get("out"), "witness": r.get("witness")})
        if st == "error" and "HarnessError" in r.get("error", ""):
            run.harness_error(r["error"])
    run.cov["functions_encoded"] = [
        {"function": "adcgen.func.wicks / _contract_operator_string / _contraction / evaluate_deltas / Rules.apply (run concretely; result encoded)",
         "source_sha": driver.src_hash(*FILES)},
        {"function": "reference: vlib/detref.py bit-string vev circuit (symbolic orbital positions) and concrete determinants"}]
    run.cov["bounds"] = {
        "pointwise": f"all strings of length 2, {'sampled' if quick else 'all'} length 4 over indices i,j,a,b,p,q (up to renaming), sampled length 3/5/6/8, 0-2 NO groups; model {mt[0]}o{mt[1]}v (length 8: 2o2v); orbital positions symbolic",
        "contracted": f"{n} products (2-6 operators on f/d/V tensors, optional NO group, random forbidden blocks; library products <k|H|psi1>, <psi1|d|psi1>, mp and re), models <= 2o2v, tensor entries symbolic",
        "z3_timeout_ms": TIMEOUT}
    run.cov["rule"] = "pointwise: distinct operator-string shapes up to index renaming; contracted: distinct printed inputs with non-zero result"
    run.assumptions += [
        "spin-labelled operator indices are refused by the code (NotImplementedError) and not explored",
        "block rules are only compared together with delta evaluation (otherwise the result carries general indices for which a block is undefined)",
        "a normal-ordered group means: stable partition into quasi-creators left of quasi-annihilators with the permutation sign",
    ]
    sys.exit(run.finish())


def _no_general(spec):
    ops, groups = spec
    for a, b in groups:
        if any(n[0] in "pqrs" for _, n in ops[a:b]):
            return True
    return False


if __name__ == "__main__":
    main()
