"""
C14  Removing or differentiating by a tensor undoes a contraction exactly.

remove_tensor: the real function is run on generated expressions (one or two
occurrences of the tensor per term, the two mostly contracted with each other); the returned block expressions are re-contracted with
the canonical tensor of each block over *unrestricted* indices with the weight
c/|G| (|G| = order of the symmetry group of the tensor block, c = 2 for a
bra-ket (anti)symmetric tensor: canonical blocks only, partner folded; ADC
amplitude vectors 1/sqrt|G|), and z3 decides equality with the original
expression for all tensor entries and target assignments.  Each block expression
must itself have the symmetry of the removed block (z3).
derivative: sum_blocks D_block * dT(block indices) is compared by z3 with the
first-order coefficient of expr(T + eps dT) obtained by sympy expansion, dT being
a second free tensor with T's symmetry.
"""
import argparse
import random
import sys
from math import factorial

from sympy import Add, Mul, S, Rational, Symbol, sqrt, Pow

from vlib import driver
from vlib import ir as IR
from vlib.driver import Run, pmap, seed
from vlib.model import Model
from vlib.tv import compare, pick_model, default_target
from vlib.gen import TermGen, POOL, consistent_bks, make_tensor
from vlib.poly import Unsupported

FILES = ["adcgen/simplify.py", "adcgen/derivative.py", "adcgen/indices.py"]
TIMEOUT = 20000
MODELS = [Model(3, 3), Model(2, 2), Model(2, 1), Model(1, 1)]

# removable tensors: name, class, shape, bra-ket sym, slot spaces
REMOVABLE = [
    ("d", "A", (1, 1), 0, "**"), ("d", "A", (1, 1), 1, "**"), ("d", "A", (1, 1), -1, "**"),
    ("d", "A", (2, 2), 0, "****"), ("d", "A", (2, 2), 1, "****"),
    ("d", "A", (2, 1), 0, "***"),
    ("Y", "M", (1, 1), 0, "vo"), ("Y", "M", (2, 2), 0, "vvoo"), ("Y", "M", (2, 1), 0, "vvo"),
    ("d", "N", (2,), 0, "**"), ("d", "N", (3,), 0, "***"),
]


def _sym(n, s=""):
    from adcgen.indices import get_symbols
    return get_symbols(n, s)[0] if s else get_symbols(n)[0]


def name_key(s):
    return (int(s.name[1:]) if s.name[1:] else 0, s.name[0])


def group_order(cls, nu, upper, lower, bks):
    """order of the symmetry group of a tensor block with distinct indices"""
    if cls == "N":
        return 1
    g = 1
    for grp in (upper, lower):
        cnt = {}
        for s in grp:
            k = (s.space, s.spin)
            cnt[k] = cnt.get(k, 0) + 1
        for c in cnt.values():
            g *= factorial(c)
    if bks and len(upper) == len(lower):
        if sorted((s.space, s.spin) for s in upper) == sorted((s.space, s.spin) for s in lower):
            g *= 2
    return g


def tensor_for_block(spec, idx_objs):
    """canonical positive tensor object of a block from the given index objects,
    assigned per space in ascending name order to the slots in index order."""
    name, cls, shape, bks, _ = spec
    t = make_tensor(name, cls, shape, bks, idx_objs)
    if t.could_extract_minus_sign():
        t = -t
    return t


def build_expr(rng, spec, max_terms=3, exponent=False, occurrences=1, spin=False,
               all_contracted=False, link=False):
    """
    Sum of terms  tensor(I) [* tensor(I2)] * remainder  in which no index occurs
    more than twice (Einstein convention is then unambiguous): the tensor's indices
    I are fresh names; a subset C of them is contracted with the remainder, the
    others are target indices carried by the tensor; the remainder carries the
    extra target indices E.  All terms share the same target indices.
    """
    name, cls, shape, bks, slots = spec
    g = TermGen(rng, spaces="ov", spin=spin, n_tensors=(1, 2), max_contracted=3,
                names=["V", "f", "t1", "t2", "g", "c", "X"], exclude=(), pool_size=9)
    # extra target indices of the expression (on the remainder)
    E = []
    for _ in range(rng.randint(0, 2)):
        sp = rng.choice("ov")
        s = _sym(POOL[sp][rng.randrange(0, 2)], rng.choice("ab") if spin else "")
        if s not in E:
            E.append(s)
    # target indices carried by the tensor are shared by all terms
    carried_spec = None
    terms = []
    for _ in range(rng.randint(1, max_terms)):
        for _try in range(60):
            tens = []
            contracted = []
            carried = []
            ok = True
            for occ in range(occurrences):
                idx = []
                linked = None
                if link and occ > 0 and contracted:
                    # the copies are contracted with each other: one slot of this copy takes a
                    # (so far contracted) index of the previous copies
                    s_l = rng.choice(contracted)
                    fit = [p_ for p_, ch_ in enumerate(slots) if ch_ in ("*", s_l.space[0])]
                    if fit:
                        linked = (rng.choice(fit), s_l)
                for pos, ch in enumerate(slots):
                    if linked is not None and pos == linked[0]:
                        idx.append(linked[1])
                        continue
                    sp = rng.choice("ov") if ch == "*" else ch
                    spn = rng.choice("ab") if spin else ""
                    names = [n for n in POOL[sp][2:9]
                             if _sym(n, spn) not in contracted and _sym(n, spn) not in carried
                             and not (link and any(_sym(n, spn) in t_.free_symbols or _sym(n, spn) in t_.atoms()
                                                   for t_ in tens))]
                    if not names:
                        ok = False
                        break
                    s = _sym(rng.choice(names), spn)
                    if s in idx and not (rng.random() < 0.15 and not all_contracted):
                        ok = False
                        break
                    idx.append(s)
                if not ok:
                    break
                t = make_tensor(name, cls, shape, bks, idx)
                if t is S.Zero:
                    ok = False
                    break
                for s in dict.fromkeys(idx):
                    if linked is not None and s == linked[1]:
                        if idx.count(s) > 1:
                            ok = False
                            break
                        contracted.remove(s)    # contracted between the copies: occurs twice
                        continue
                    if idx.count(s) > 1:
                        continue            # repeated on the tensor: already twice
                    if all_contracted or rng.random() < 0.75:
                        contracted.append(s)
                    else:
                        carried.append(s)
                if not ok:
                    break
                tens.append(t)
            if not ok:
                continue
            key = sorted((s.name, s.space) for s in carried)
            if carried_spec is None:
                carried_spec = key
            elif key != carried_spec:
                continue
            T_rest = E + contracted
            prod = Mul(*tens)
            if exponent and occurrences == 1 and rng.random() < 0.6:
                # tensor squared: its indices are contracted within the square
                if carried:
                    continue
                prod = tens[0] ** 2
                T_rest = list(E)
            try:
                rest = g.term_with_target(T_rest)
            except RuntimeError:
                continue
            # the remainder must not reuse names of the carried indices
            from adcgen.indices import Index
            if any(s in rest.atoms(Index) for s in carried):
                continue
            # an index repeated on the tensor itself already occurs twice
            repeated = [s for t_ in tens for s in set(t_.atoms(Index))
                        if s not in contracted and s not in carried]
            if any(s in rest.atoms(Index) for s in repeated):
                continue
            if exponent and T_rest == E and any(s in rest.atoms(Index) for s in prod.atoms(Index)):
                continue
            term = prod * rest
            if term is S.Zero:
                continue
            terms.append(term)
            break
    if not terms:
        raise RuntimeError("no term")
    return Add(*terms), E


def run_remove(sd):
    rng = random.Random(sd)
    from adcgen import Expr
    from adcgen.simplify import remove_tensor
    from adcgen.indices import Index
    spec = rng.choice(REMOVABLE)
    name, cls, shape, bks, slots = spec
    spin = rng.random() < 0.3          # spin-labelled indices: mixed spin blocks of the removed tensor
    # second generator stream (keeps the cases of the first one): two copies of the tensor in a term,
    # mostly contracted with each other; target indices passed explicitly in some cases
    rng2 = random.Random(sd * 7919 + 1)
    nocc = 2 if rng2.random() < 0.3 else 1
    link = nocc == 2 and rng2.random() < 0.75
    explicit_target = rng2.random() < 0.25
    try:
        raw, _ = build_expr(rng, spec, spin=spin, max_terms=2 if spin or nocc == 2 else 3,
                            occurrences=nocc, link=link)
    except RuntimeError:
        return {"status": "skipped", "item": sd}
    if raw is S.Zero or not consistent_bks(raw):
        return {"status": "skipped", "item": sd}
    e = Expr(raw)
    # all terms must share the same (Einstein) target indices
    tsets = {tuple(t.target) for t in e.terms}
    if len(tsets) != 1:
        return {"status": "skipped", "item": sd}
    T = list(tsets.pop())
    # the same number of occurrences (one or two) with exponent 1 in every term
    for t in e.terms:
        occ = [o for o in t.objects if o.name == name]
        if len(occ) != nocc or any(o.exponent != 1 for o in occ):
            return {"status": "skipped", "item": sd}
    if explicit_target:
        e = Expr(raw, target_idx=list(T))
        if list(e.terms[0].target) != T:
            return {"status": "skipped", "item": sd}
    res = {"item": sd, "in": str(e), "target": " ".join(map(str, T)), "tensor": f"{name}{shape} bks={bks} {cls}",
           "status": "equal", "det": []}
    try:
        blocks = remove_tensor(e.copy(), name)
    except NotImplementedError as exc:
        return dict(res, status="skipped", note=str(exc)[:80])
    res["out"] = str({k: str(v) for k, v in blocks.items()})[:500]
    R = S.Zero
    nu = shape[0] if cls != "N" else 0
    sym_checks = []
    for key, bexpr in blocks.items():
        bs = bexpr.sympy if hasattr(bexpr, "sympy") else S(bexpr)
        if key == ("none",):
            R += bs
            continue
        if len(key) != nocc:
            res["det"].append(f"block key {key} for {nocc} occurrence(s) of the tensor")
            continue
        if bs is S.Zero:
            continue
        # tensor indices = free indices of the block expression that are not targets
        bir = IR.expr_ir(bs)
        free = default_target([bir])
        allobj = {IR.idx_ir(s): s for s in bs.atoms(Index)}
        tens_idx = [allobj[k] for k in free if allobj[k] not in T]
        if len(tens_idx) != sum(len(k_.split("_")[0]) for k_ in key):
            res["det"].append(f"block {key}: expression has {len(tens_idx)} free non-target indices")
            continue
        any_spin = any("_" in k_ for k_ in key)
        by_space = {}
        for s in sorted(tens_idx, key=name_key):
            by_space.setdefault((s.space[0], s.spin if any_spin else ""), []).append(s)
        # the copies take the lowest names in the order of the key (one copy: all of them)
        contrib = bs
        all_slots = []
        copies = []
        fits = True
        for kb in key:
            space_str = kb.split("_")[0]
            spin_str = kb.split("_")[1] if "_" in kb else ""
            # key space string is in the order of Obj.idx (amplitudes: lower, upper)
            slots_idx = []
            try:
                for n_, ch in enumerate(space_str):
                    sp_ = spin_str[n_] if spin_str else ""
                    slots_idx.append(by_space[(ch, "" if sp_ == "n" else sp_)].pop(0))
            except (KeyError, IndexError):
                res["det"].append(f"block {key}: free indices {tens_idx} do not fit the block")
                fits = False
                break
            if cls == "M":
                nl = shape[1]
                ordered = slots_idx[nl:] + slots_idx[:nl]     # upper, lower
            else:
                ordered = slots_idx
            tens = tensor_for_block(spec, ordered)
            if cls == "N":
                up, lo = tuple(ordered), ()
            else:
                up, lo = tuple(ordered[:nu]), tuple(ordered[nu:])
            G = group_order(cls, nu, up, lo, bks)
            w = Rational(2 if bks else 1, G)
            if name in ("X", "Y"):
                w = 1 / sqrt(G)
            contrib = w * contrib * tens
            all_slots += slots_idx
            copies.append((tens, up, lo))
        if not fits:
            continue
        R += contrib
        for tens, up, lo in copies:
            sym_checks.append((bs, tens, up, lo, T + all_slots))
    if res["det"]:
        res["status"] = "differ"
        return res
    irs = [IR.expr_ir(e.sympy), IR.expr_ir(R.expand())]
    Tir = {IR.idx_ir(s) for s in T}
    model = pick_model(irs, Tir, [Model(2, 2, spin=True), Model(1, 1, spin=True)] if spin else MODELS,
                       budget=250000)
    res["spin"] = spin
    try:
        oc = compare(e.sympy, R.expand(), T, model, timeout_ms=TIMEOUT, seed=seed())
    except Unsupported as exc:
        return dict(res, status="skipped", note=str(exc)[:80])
    res.update(oc.as_dict())
    res["witness"], res["model"] = oc.witness, model.tag
    res["nontrivial"] = True
    # symmetry of each block expression = symmetry of the removed block
    if oc.status == "equal":
        for bs, tens, up, lo, tgt in sym_checks:
            pairs = []
            for grp in (up, lo):
                for x in range(len(grp)):
                    for y in range(x + 1, len(grp)):
                        if grp[x].space == grp[y].space and grp[x].spin == grp[y].spin:
                            pairs.append((grp[x], grp[y]))
            if cls == "N":
                pairs = []
            for (p, q) in pairs[:2]:
                sgn = 1 if cls == "S" else -1
                Bp = bs.xreplace({p: q, q: p})
                oc2 = compare(bs, sgn * Bp, tgt, model, timeout_ms=TIMEOUT, seed=seed())
                res["queries"] += 1
                res["unsat"] += oc2.unsat
                res["sat"] += oc2.sat
                if oc2.status == "differ":
                    res["status"] = "differ"
                    res["witness"] = dict(oc2.witness or {}, symmetry=f"P_{p}{q} of block expression")
    return res


def run_derivative(sd):
    rng = random.Random(sd)
    from adcgen import Expr
    from adcgen.derivative import derivative
    from adcgen.indices import Index
    from adcgen.sympy_objects import (AntiSymmetricTensor, SymmetricTensor, Amplitude,
                                      NonSymmetricTensor)
    spec = rng.choice([s for s in REMOVABLE])
    name, cls, shape, bks, slots = spec
    exponent = rng.random() < 0.35
    occ = rng.choice([1, 1, 2])
    try:
        raw, _ = build_expr(rng, spec, max_terms=2, exponent=exponent, occurrences=occ,
                            all_contracted=True)
    except RuntimeError:
        return {"status": "skipped", "item": sd}
    if raw is S.Zero or not consistent_bks(raw):
        return {"status": "skipped", "item": sd}
    e = Expr(raw)
    tsets = {tuple(t.target) for t in e.terms}
    if len(tsets) != 1:
        return {"status": "skipped", "item": sd}
    T = list(tsets.pop())
    # no repeated index on the differentiated tensor (outside the claim)
    from adcgen.sympy_objects import SymbolicTensor
    for t in e.sympy.atoms(SymbolicTensor):
        if t.name == name and len(set(t.idx)) != len(t.idx):
            return {"status": "skipped", "item": sd}
    res = {"item": sd, "in": str(e), "target": " ".join(map(str, T)),
           "tensor": f"{name}{shape} bks={bks} {cls}", "status": "equal", "det": []}
    import warnings
    with warnings.catch_warnings():
        warnings.simplefilter("ignore")
        try:
            blocks = derivative(e.copy(), name)
        except (NotImplementedError, RuntimeError) as exc:
            return dict(res, status="skipped", note=str(exc)[:80])
    res["out"] = str({str(k): str(v) for k, v in blocks.items()})[:500]
    # reference: first-order coefficient of expr(T + eps dT) by sympy expansion
    eps = Symbol("eps__")
    dname = "dT"

    def vary(t):
        if isinstance(t, NonSymmetricTensor):
            return t + eps * NonSymmetricTensor(dname, t.indices)
        return t + eps * type(t)(dname, t.upper, t.lower, t.bra_ket_sym)
    rep = {t: vary(t) for t in e.sympy.atoms(SymbolicTensor) if t.name == name}
    ref = e.sympy.xreplace(rep).expand().coeff(eps, 1)
    # candidate: sum_blocks D * dT(block indices)
    cand = S.Zero
    nu = shape[0] if cls != "N" else 0
    for key, dexpr in blocks.items():
        ds = dexpr.sympy if hasattr(dexpr, "sympy") else S(dexpr)
        if ds is S.Zero:
            continue
        try:
            ds = ds.expand()
            dir_ = IR.expr_ir(ds)
        except Exception as exc:
            res["status"] = "differ"
            res["witness"] = {"malformed derivative block": f"{type(exc).__name__}: {exc}"}
            return res
        space_str = key[0]
        # indices of the removed tensor: lowest non-target names per space, ascending by slot
        used = {}
        for s in T:
            used.setdefault(s.space[0], set()).add(s.name)
        counters = {}
        slots_idx = []
        for ch in space_str:
            pool = []
            sfx = 0
            base = {"o": "ijklmno", "v": "abcdefgh", "g": "pqrstuvw"}[ch]
            while len(pool) < 12:
                pool += [c if sfx == 0 else f"{c}{sfx}" for c in base]
                sfx += 1
            pool = [n_ for n_ in pool if n_ not in used.get(ch, set())]
            k = counters.get(ch, 0)
            counters[ch] = k + 1
            slots_idx.append(_sym(pool[k]))
        if cls == "M":
            nl = shape[1]
            ordered = slots_idx[nl:] + slots_idx[:nl]
        else:
            ordered = slots_idx
        spec_d = (dname, cls, shape, bks, slots)
        tens = tensor_for_block(spec_d, ordered)
        cand += ds * tens
    irs = [IR.expr_ir(ref), IR.expr_ir(cand.expand())]
    Tir = {IR.idx_ir(s) for s in T}
    model = pick_model(irs, Tir, MODELS, budget=250000)
    kind = "S" if cls == "S" else "A"
    spec_extra = None
    if cls != "N":
        spec_extra = {(dname, shape[0], shape[1]): (kind, bks), (name, shape[0], shape[1]): (kind, bks)}
    try:
        oc = compare(ref, cand.expand(), T, model, timeout_ms=TIMEOUT, seed=seed(),
                     spec_extra=spec_extra)
    except (Unsupported, IR.IRError) as exc:
        res["status"] = "differ"
        res["witness"] = {"malformed derivative": f"{type(exc).__name__}: {exc}"}
        return res
    res.update(oc.as_dict())
    res["witness"], res["model"] = oc.witness, model.tag
    res["nontrivial"] = ref is not S.Zero
    res["exponent"] = exponent
    return res


def main():
    global TIMEOUT
    ap = argparse.ArgumentParser()
    ap.add_argument("--tier", default="quick")
    ap.add_argument("--replay")
    a = ap.parse_args()
    fns = {"remove_tensor": run_remove, "derivative": run_derivative}
    if a.replay:
        import json
        p = json.load(open(a.replay))
        r = fns[p["part"]](p["item"])
        print(json.dumps({k: r.get(k) for k in ("status", "in", "tensor", "out", "det", "witness")},
                         indent=1, default=str))
        return 1 if (r.get("status") == "differ" or r.get("det")) else 0
    quick = a.tier == "quick"
    TIMEOUT = 20000 if quick else 120000
    run = Run("C14", a.tier, "translation_validation")
    n = {"remove_tensor": 400, "derivative": 400} if quick else {"remove_tensor": 4000, "derivative": 4000}
    base = seed() * 1000003 + 1400
    for part, fn in fns.items():
        results = pmap(fn, [base + k for k in range(n[part])], limit=120 if quick else 600)
        for r in results:
            st = r.get("status")
            sub = f"{part}/{(r.get('tensor') or '?').split(' ')[0]}"
            run.add_outcome(sub, r, sample={"part": part, "in": r.get("in", "")[:250], "tensor": r.get("tensor"),
                                           "target": r.get("target"), "out": (r.get("out") or "")[:250],
                                           "model": r.get("model"), "verdict": st}
                            if st == "equal" and r.get("nontrivial") else None,
                            distinct_key=(part, r.get("in"), r.get("tensor")),
                            nontrivial=bool(r.get("nontrivial")))
            payload = {"part": part, "item": r.get("item"), "input": r.get("in"), "tensor": r.get("tensor"),
                       "output": r.get("out"), "witness": r.get("witness")}
            if st == "differ":
                fp = f"{part}:{r.get('in')}|{r.get('tensor')}"
                run.violation(fp, f"{part}({r.get('in', '')[:200]}, {r.get('tensor')}) -> {(r.get('out') or '')[:200]}",
                              payload)
            for d in r.get("det", []):
                run.violation(f"{part}-det:{d[:60]}:{r.get('in')}", d, dict(payload, deterministic=d))
            if st == "error" and "HarnessError" in r.get("error", ""):
                run.harness_error(r["error"])
    run.cov["functions_encoded"] = [
        {"function": "adcgen.simplify.remove_tensor, adcgen.derivative.derivative, indices.minimize_tensor_indices (run concretely; input, block expressions and their re-contraction encoded)",
         "source_sha": driver.src_hash(*FILES)}]
    run.cov["bounds"] = {
        "removed tensors": [f"{s[0]} {s[1]} {s[2]} bks={s[3]}" for s in REMOVABLE],
        "expressions": "1-3 terms, tensor x 1-2 remainder tensors, no index more than twice per term (Einstein convention unambiguous); remove_tensor: target-carrying and repeated indices on the removed tensor occur, one or two occurrences with exponent 1 per term (two: independent or contracted with each other, the copy named first in the sorted key carries the lowest non-target names; explicit target indices in a quarter of the cases); derivative: 1-2 occurrences, exponent <= 2, all indices of the tensor contracted (with target indices on the tensor the block-wise result has no deltas and no well-defined contraction: outside)",
        "models": "<= 3o3v", "shapes": n, "z3_timeout_ms": TIMEOUT}
    run.cov["rule"] = "seeded generator; distinct = distinct (input, tensor)"
    run.assumptions += [
        "normalisation fixed from the docstrings: unrestricted re-contraction with weight c/|G| (c = 2 with bra-ket symmetry; ADC vectors 1/sqrt|G|)",
        "reference derivative: sympy expansion of expr(T + eps dT) (trusted), independent of adcgen.derivative",
        "spin-labelled indices are not explored for this property",
    ]
    sys.exit(run.finish())


if __name__ == "__main__":
    main()
