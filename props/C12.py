"""
C12  Registered intermediate definitions equal the quantities they name.

For every registered intermediate the real expand_itmd is run (default, permuted
and numbered index tuples; once and fully expanded) and compared by z3 with
 - t-amplitudes: the coefficient of the explicitly computed MP wavefunction
   (vlib/pt.py; once expanded: lower orders are free amplitude unknowns; fully
   expanded: built recursively from integrals and orbital energies);
 - MP densities: the lambda^n coefficient of <Psi|a+_p a_q|Psi>/<Psi|Psi>;
 - RE residuals: the explicit RE residual (bit strings) and, independently, the
   expression derived by GroundState.amplitude_residual;
 - composite integral-amplitude intermediates: once vs fully expanded definition
   (t1 := its first-order value) and the stated combination of lower ones;
and every permutational symmetry declared for the tensor symbol is checked on the
expanded expression.
"""
import argparse
import sys
from fractions import Fraction

from sympy import S, sympify, Rational

from vlib import driver
from vlib import ir as IR
from vlib.driver import Run, pmap, seed
from vlib.model import Model
from vlib.poly import SP
from vlib.pt import PT
from vlib.tv import compare, perturb

FILES = ["adcgen/intermediates.py", "adcgen/groundstate.py"]
TIMEOUT = 60000
REAL = {"alias": {f"t{n}cc": f"t{n}" for n in range(1, 5)}}
REAL_SPEC = {("V", 2, 2): ("A", 1), ("f", 1, 1): ("A", 1)}

T_AMPL = {"t2_1": (1, 2), "t1_2": (2, 1), "t2_2": (2, 2), "t3_2": (2, 3), "t4_2": (2, 4),
          "t1_3": (3, 1), "t2_3": (3, 2)}
DENS = {"p0_2_oo": 2, "p0_2_vv": 2, "p0_3_oo": 3, "p0_3_ov": 3, "p0_3_vv": 3}
RESID = {"t2_1_re_residual": (1, "pphh"), "t1_2_re_residual": (2, "ph"),
         "t2_2_re_residual": (2, "pphh")}
MISC = ["t2eri_1", "t2eri_2", "t2eri_3", "t2eri_4", "t2eri_5", "t2eri_6", "t2eri_7",
        "t2eri_A", "t2eri_B", "t2sq"]


class Ref:
    irs = []

    def __init__(self, kind, order, occ, virt, explicit=False, variant="mp", p=None, q=None):
        self.__dict__.update(locals())
        self._pt = {}

    def pt(self, model, val):
        x = self._pt.get(id(val))
        if x is None:
            x = PT(model, val, variant=self.variant, singles=False,
                   canonical=(self.variant == "mp"), explicit=self.explicit)
            self._pt[id(val)] = x
        return x

    def __call__(self, model, val, tau):
        pt = self.pt(model, val)
        if self.kind == "amplitude":
            return pt.mp_amplitude(self.order, tuple(tau[k] for k in self.occ),
                                   tuple(tau[k] for k in self.virt)).to_ml()
        if self.kind == "residual":
            return pt.residual(self.order, tuple(tau[k] for k in self.occ),
                               tuple(tau[k] for k in self.virt)).to_ml()
        if self.kind == "density":
            return pt.density(self.order, tau[self.p], tau[self.q]).to_ml()
        raise ValueError(self.kind)


def idx_variants(default, which):
    """default names, a permuted tuple, shifted letters, numbered names"""
    occ = [x for x in default if x in "ijklmno"]
    virt = [x for x in default if x in "abcdefgh"]
    if which == "default":
        return list(default)
    if which == "permuted":
        m = dict(zip(occ, occ[1:] + occ[:1]))
        m.update(zip(virt, virt[::-1]))
        return [m[x] for x in default]
    if which == "shifted":
        # the letters that follow the default ones: the names a definition uses for its own
        # contracted indices (a contracted index missing from a definition's list collides)
        on = list("lmnoijk")[:len(occ)] if len(occ) <= 3 else list("mnolijk")[:len(occ)]
        vn = list("defgabc")[:len(virt)] if len(virt) <= 3 else list("efghabc")[:len(virt)]
        m = dict(zip(occ, on))
        m.update(zip(virt, vn))
        return [m[x] for x in default]
    if which == "numbered":
        on = ["k2", "j", "i10", "m", "l3"]
        vn = ["c", "a4", "b", "e7", "d"]
        m = dict(zip(occ, on))
        m.update(zip(virt, vn))
        return [m[x] for x in default]
    raise ValueError(which)


def run_case(item):
    name, check, variant_idx, fully, mtag = item[:5]
    maxasg = item[5] if len(item) > 5 else None     # large model: first non-trivial assignments only
    from adcgen import Intermediates, Expr, Operators, GroundState
    from adcgen.indices import get_symbols
    itmd = Intermediates().available[name]
    model = Model(*mtag)
    names = idx_variants(itmd.default_idx, variant_idx)
    syms = get_symbols(names)
    occ = [s for s in syms if s.space == "occ"]
    virt = [s for s in syms if s.space == "virt"]
    occ_ir = tuple(IR.idx_ir(s) for s in occ)
    virt_ir = tuple(IR.idx_ir(s) for s in virt)
    res = {"item": item, "model": model.tag,
           "api": f"Intermediates().{name}.expand_itmd(indices={names}, fully_expand={fully})"}
    expr = itmd.expand_itmd(indices=names, fully_expand=fully)
    from vlib.tv import expand_numer
    out = expand_numer(sympify(expr.sympy))
    res["out"] = str(out)[:300]
    res["n_terms"] = len(out.args) if out.is_Add else (0 if out is S.Zero else 1)
    target = syms
    val_opts, spec_extra = dict(REAL), dict(REAL_SPEC)
    if check == "pt":
        if name in T_AMPL:
            order, _ = T_AMPL[name]
            A = Ref("amplitude", order, occ_ir, virt_ir, explicit=fully)
        elif name in DENS:
            A = Ref("density", DENS[name], (), (), explicit=fully,
                    p=IR.idx_ir(syms[0]), q=IR.idx_ir(syms[1]))
        else:
            order, _ = RESID[name]
            A = Ref("residual", order, occ_ir, virt_ir, variant="re")
    elif check == "derived":
        order, space = RESID[name]
        gs = GroundState(Operators("re"))
        A = sympify(gs.amplitude_residual(order, space, "".join(names))).expand()
        A = Expr(A).make_real().sympy
        res["api"] += " vs GroundState(Operators('re')).amplitude_residual"
    elif check == "expansion":
        avail = Intermediates().available
        if name in ("t2eri_A", "t2eri_B"):
            # the stated combination of the lower intermediates, each taken at its own
            # (fully expanded) definition
            i0, i1, i2, i3 = names
            if name == "t2eri_A":
                p1, p2 = avail["t2eri_1"], avail["t2eri_2"]
                A = (Rational(1, 2) * p1.expand_itmd(indices=[i0, i1, i2, i3]).sympy
                     + p2.expand_itmd(indices=[i0, i1, i2, i3]).sympy
                     - p2.expand_itmd(indices=[i1, i0, i2, i3]).sympy)
            else:
                p6, p7 = avail["t2eri_6"], avail["t2eri_7"]
                A = (-Rational(1, 2) * p6.expand_itmd(indices=[i0, i1, i2, i3]).sympy
                     + p7.expand_itmd(indices=[i0, i1, i2, i3]).sympy
                     - p7.expand_itmd(indices=[i0, i1, i3, i2]).sympy)
            A = expand_numer(sympify(A))
            out = expand_numer(sympify(itmd.expand_itmd(indices=names, fully_expand=True).sympy))
            res["api"] = (f"Intermediates().{name}.expand_itmd(indices={names}) vs the stated "
                          "combination of the expanded lower intermediates")
        else:
            # once expanded (t1 tensor) vs fully expanded: t1 takes its first-order value
            other = itmd.expand_itmd(indices=names, fully_expand=not fully)
            A = expand_numer(sympify(other.sympy))

            def t1_value(val, nm, cls, U, L, bks):
                if len(U) != 2 or len(L) != 2:
                    return None
                from vlib.model import canon_entry
                sg, can = canon_entry("A", U, L, 0)
                if sg == 0:
                    return []
                U2, L2 = can
                v = val.tensor("V", "A", U2, L2, 0)
                form = [(Fraction(1), (val.vars.get(("N", "e", (o,))),)) for o in U2]
                form += [(Fraction(-1), (val.vars.get(("N", "e", (o,))),)) for o in L2]
                inv = val.inverse_of(form, 1)
                from vlib.poly import ml_mul
                return [(c * sg, m) for c, m in ml_mul(v, inv)]
            val_opts["overrides"] = {"t1": t1_value}
            res["api"] += f" vs fully_expand={not fully} (t1 := <ab||ij>/(e_a+e_b-e_i-e_j))"
    elif check == "symmetry":
        tens = itmd.tensor(indices=names)
        sym = tens.terms[0].symmetry()
        res["api"] += f"; declared symmetry {len(sym)} operations"
        status = "equal"
        tot = {"queries": 0, "unsat": 0, "sat": 0, "unknown": 0, "stage2": 0, "solver_s": 0.0, "encode_s": 0.0}
        for perms, factor in sym.items():
            m = {}
            idxs = set()
            for p_, q_ in perms:
                idxs |= {p_, q_}
            for s in idxs:
                y = s
                for p_, q_ in perms:
                    if y is p_:
                        y = q_
                    elif y is q_:
                        y = p_
                m[s] = y
            B = factor * out.xreplace(m)
            oc = compare(out, B, target, model, timeout_ms=TIMEOUT, seed=seed(),
                         val_opts=val_opts, spec_extra=spec_extra)
            for k in tot:
                tot[k] += getattr(oc, k)
            if oc.status != "equal":
                status = oc.status
                res["witness"] = dict(oc.witness or {}, symmetry=f"{perms}: {factor}")
                break
        res.update(tot)
        res["status"] = status
        res["n_sym"] = len(sym)
        return res
    else:
        raise ValueError(check)
    oc = compare(A, out, target, model, timeout_ms=TIMEOUT, seed=seed(), val_opts=val_opts,
                 spec_extra=spec_extra, max_assignments=maxasg)
    res.update(oc.as_dict())
    res["witness"] = oc.witness
    if maxasg:
        res["api"] += f" [first {maxasg} non-trivial target assignments]"
    if oc.status == "equal" and out is not S.Zero and check == "pt":
        oc2 = compare(A, perturb(out, seed() + len(name)), target, model, timeout_ms=TIMEOUT,
                      seed=seed(), replay=False, val_opts=val_opts, spec_extra=spec_extra,
                      max_assignments=maxasg)
        res["guard"] = oc2.status
    return res


def main():
    global TIMEOUT
    ap = argparse.ArgumentParser()
    ap.add_argument("--tier", default="quick")
    ap.add_argument("--replay")
    a = ap.parse_args()
    if a.replay:
        import json
        p = json.load(open(a.replay))
        it = p["item"]
        if p.get("part") == "spinblocks":
            from props import C15 as P15
            P15.TIMEOUT = 60000
            r = P15.run_blocks(tuple(it))
            print(json.dumps({k: r.get(k) for k in ("status", "in", "out", "witness")}, indent=1, default=str))
            return 1 if r.get("status") == "differ" else 0
        it[4] = tuple(it[4])
        r = run_case(tuple(it))
        print(json.dumps({k: r.get(k) for k in ("status", "api", "out", "witness")}, indent=1, default=str))
        return 1 if r.get("status") == "differ" else 0
    quick = a.tier == "quick"
    TIMEOUT = 60000 if quick else 300000
    run = Run("C12", a.tier, "translation_validation")
    items = []
    variants = ["default", "permuted", "shifted"] if quick else ["default", "permuted", "shifted", "numbered"]

    def model_for(name, fully):
        no = sum(1 for x in __import__("adcgen").Intermediates().available[name].default_idx if x in "ijklmno")
        nv = sum(1 for x in __import__("adcgen").Intermediates().available[name].default_idx if x in "abcdefgh")
        return (max(2, no), max(2, nv))
    for name in T_AMPL:
        if name == "t4_2":
            continue                      # quadruples need a 4o4v model (thorough, symmetry only)
        for v in variants:
            mt = model_for(name, False)
            items.append((name, "pt", v, False, mt))
            if not quick and mt == (2, 2):
                items.append((name, "pt", v, False, (3, 3)))
            if name in ("t3_2",) or (name in ("t1_3", "t2_3") and quick and v != "default"):
                continue
            if name == "t2_3" and quick:
                continue
            items.append((name, "pt", v, True, (2, 2)))
        items.append((name, "symmetry", "default", False, model_for(name, False)))
    # 4o4v: the quadruples contributions (t4_2 inside t2_3, disconnected t2*t2 products) vanish
    # identically in models with fewer than four occupied or virtual spin orbitals
    for name in ("t2_3", "t1_3", "t2_2", "t3_2"):
        items.append((name, "pt", "default", False, (4, 4), 4 if quick else 24))
    if not quick:
        # fully expanded: the factorised quadruples t1*t1 equal the RSPT coefficient only for first-order
        # doubles that fulfil their own equation (the induction with free lower-order amplitudes does not apply)
        items.append(("t4_2", "pt", "default", True, (4, 4), 4))
        items.append(("t2_3", "pt", "default", True, (4, 4), 2))
    for name in DENS:
        for v in variants:
            items.append((name, "pt", v, False, (2, 2)))
            if not quick:
                items.append((name, "pt", v, False, (3, 3)))
            elif v == "default":
                # off-diagonal third-order oo / vv elements vanish identically with fewer than three
                # occupied / virtual spin orbitals: 3o3v, off-diagonal assignments first
                items.append((name, "pt", v, False, (3, 3), 4))
            if DENS[name] == 2 or not quick:
                items.append((name, "pt", v, True, (2, 2)))
        items.append((name, "symmetry", "default", False, (2, 2)))
        items.append((name, "symmetry", "default", False, (3, 3)))
    for name in RESID:
        for v in variants:
            items.append((name, "pt", v, False, (2, 2)))
            items.append((name, "derived", v, False, (2, 2)))
            if not quick:
                items.append((name, "pt", v, False, (3, 3)))
    for name in MISC:
        for v in variants[:1] if quick else variants:
            items.append((name, "expansion", v, False, (2, 2)))
        items.append((name, "symmetry", "default", False, (2, 2)))
    if not quick:
        items.append(("t4_2", "symmetry", "default", False, (4, 4)))
    results = pmap(run_case, items, limit=1200 if quick else 2400, workers=15)
    guards = [0, 0]
    for r in results:
        st = r.get("status")
        it = r.get("item")
        part = f"{it[1]}/{it[0]}" if isinstance(it, tuple) else "?"
        nontriv = bool(r.get("n_terms"))
        run.add_outcome(part, r, sample={"api": r.get("api"), "model": r.get("model"),
                                        "terms": r.get("n_terms"), "verdict": st}
                        if st == "equal" and nontriv else None,
                        distinct_key=(r.get("api"), r.get("model")), nontrivial=nontriv)
        if st == "differ":
            run.violation(f"{r['api']}@{r['model']}", f"{r['api']} is not the quantity it names ({r['model']})",
                          {"item": list(it), "api": r["api"], "output": r.get("out"), "witness": r.get("witness")})
        if st == "error" and "HarnessError" in r.get("error", ""):
            run.harness_error(r["error"])
        if "guard" in r:
            guards[1] += 1
            guards[0] += r["guard"] == "differ"
    # declared vanishing spin blocks of every registered intermediate (same harness as C15):
    # each block that allowed_spin_blocks does not report must vanish identically
    from props import C15 as P15
    P15.TIMEOUT = TIMEOUT
    import adcgen
    n_names = len([n_ for n_ in adcgen.Intermediates().available if n_ not in ("t4_2", "t2_3", "t1_3", "p0_3_ov")])
    sb_items = [("itmd", n_names * (7 * rep + 1) + k) for rep in range(2 if quick else 6) for k in range(n_names)]
    for r in pmap(P15.run_blocks, sb_items, limit=300 if quick else 1200, workers=15):
        st = r.get("status")
        run.add_outcome("spinblocks", r, sample={"api": r.get("in"), "declared": (r.get("out") or "")[:200],
                                                  "model": r.get("model"), "verdict": st}
                        if st == "equal" and r.get("nontrivial") else None,
                        distinct_key=("spinblocks", r.get("in"), tuple(r.get("item") or ())),
                        nontrivial=bool(r.get("nontrivial")))
        if st == "differ":
            run.violation(f"spinblocks:{r.get('in')}",
                          f"{r.get('in')} = {(r.get('out') or '')[:150]}: the block {(r.get('witness') or {}).get('block')} is declared to vanish but does not",
                          {"part": "spinblocks", "item": list(r["item"]), "api": r.get("in"), "output": r.get("out"),
                           "witness": r.get("witness")})
        if st == "error" and "HarnessError" in r.get("error", ""):
            run.harness_error(r["error"])
    run.cov["vacuity_guard"] = {"perturbed_definitions_detected": guards[0], "tried": guards[1]}
    if guards[1] and guards[0] < guards[1] // 2:
        run.harness_error(f"vacuity guard: only {guards[0]}/{guards[1]} perturbed definitions distinguishable")
    run.cov["functions_encoded"] = [
        {"function": "RegisteredIntermediate.expand_itmd / tensor / tensor_symmetry and every _build_expanded_itmd in adcgen/intermediates.py (run concretely; result encoded)",
         "source_sha": driver.src_hash(*FILES)},
        {"function": "reference: vlib/pt.py (explicit RSPT / RE residual / density on bit strings)"}]
    run.cov["bounds"] = {
        "intermediates": sorted(list(T_AMPL) + list(DENS) + list(RESID) + MISC),
        "index tuples": variants,
        "models": "n_o, n_v = max(2, number of occ / virt indices); thorough adds 3o3v; fully expanded definitions in 2o2v",
        "outside": "t4_2 and the quadruples contribution inside t2_3 vanish below 4o4v (symmetry of t4_2 checked in 4o4v in the thorough tier only); t2eri_1..7 and t2sq have no oracle independent of their own formula beyond expansion consistency and declared symmetry; declared vanishing spin blocks: up to 6 non-reported blocks per intermediate and run (third order / quadruples excluded), expression-level spin blocks: see C15",
        "z3_timeout_ms": TIMEOUT}
    run.cov["rule"] = "one case per (intermediate, check, index tuple, expansion level, model); non-trivial = non-empty expanded definition"
    run.assumptions += [
        "real orbital basis (intermediates are only defined there): <pq||rs> and f bra-ket symmetric, t<n>cc = t<n>",
        "once-expanded definitions: lower-order amplitudes are free unknowns (induction over the order, as in C02)",
    ]
    sys.exit(run.finish())


if __name__ == "__main__":
    main()
