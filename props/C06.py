"""
C06  Tensor objects identify exactly the index tuples related by declared symmetry.

E1 (z3): for every raw index tuple of the stated family the real constructor is
called; the value of the constructed object (sign and stored index order as
printed) is compared, for all tensor entries and all orbital assignments of a
typed model, with the entry the *raw* tuple denotes under the harness' own
reading of the declared symmetry (vlib/model.canon_entry).  Equality for every
tuple implies: related tuples give +-the same object, forced zeros vanish, and
unrelated tuples are never identified.  Related tuples are additionally required
to give the identical sympy object (direct comparison).  Index substitution,
Kronecker deltas and Expr assumptions likewise.
E3 (CrossHair): _need_bra_ket_swap, sort_idx_canonical, preferred_and_killable
regenerated from source on duck-typed indices with symbolic attributes.
"""
import argparse
import random
import sys
from fractions import Fraction
from itertools import permutations, product

from sympy import S, Mul, Add

from vlib import driver, chrun, srcgen
from vlib import ir as IR
from vlib.driver import Run, pmap, seed
from vlib.model import Model, canon_entry
from vlib.tv import compare, pick_model

FILES = ["adcgen/sympy_objects.py", "adcgen/indices.py", "adcgen/expr_container.py"]
TIMEOUT = 20000
POOL = [("i", ""), ("j", ""), ("i1", ""), ("j10", ""), ("a", ""), ("b", ""), ("a2", ""),
        ("p", ""), ("q", ""), ("i", "a"), ("i", "b"), ("j", "a"), ("a", "a"), ("a", "b"),
        ("p", "a"), ("p", "b"), ("k", ""), ("c", ""), ("b10", ""), ("k", "a"), ("b", "b"),
        ("i0", ""), ("a0", "")]


def sym(n, s):
    from adcgen.indices import get_symbols
    return get_symbols(n, s)[0] if s else get_symbols(n)[0]


class EntryRef:
    """the entry a raw tuple denotes: sign * X[canonical representative]"""
    irs = []

    def __init__(self, name, kind, U, L, bks, scale=1):
        self.name, self.kind, self.U, self.L, self.bks, self.scale = name, kind, U, L, bks, scale

    def __call__(self, model, val, tau):
        U = tuple(tau[k] for k in self.U)
        L = tuple(tau[k] for k in self.L)
        if self.kind == "N":
            return [(Fraction(self.scale) * c, m) for c, m in val.nonsym(self.name, U)]
        cls = "S" if self.kind == "S" else "A"
        return [(Fraction(self.scale) * c, m) for c, m in val.tensor(self.name, cls, U, L, self.bks)]


def related(kind, bks, U, L):
    """all tuples related to (U, L) by the declared symmetry, with signs"""
    out = []
    for pu in permutations(range(len(U))):
        for pl in permutations(range(len(L))):
            su = _parity(pu) if kind != "S" else 0
            sl = _parity(pl) if kind != "S" else 0
            u2 = tuple(U[k] for k in pu)
            l2 = tuple(L[k] for k in pl)
            out.append((u2, l2, -1 if (su + sl) % 2 else 1))
            if bks and len(U) == len(L):
                out.append((l2, u2, (-1 if (su + sl) % 2 else 1) * bks))
    return out


def _parity(p):
    inv = sum(1 for a in range(len(p)) for b in range(a + 1, len(p)) if p[a] > p[b])
    return inv % 2


def run_tensor(item):
    cls, bks, nu, nl, picks, sd = item
    from adcgen.sympy_objects import AntiSymmetricTensor, SymmetricTensor, Amplitude
    C = {"A": AntiSymmetricTensor, "S": SymmetricTensor, "M": Amplitude}[cls]
    idx = [sym(*POOL[k]) for k in picks]
    U, L = tuple(idx[:nu]), tuple(idx[nu:])
    res = {"item": item, "det": [],
           "in": f"{C.__name__}('d', {U}, {L}, {bks})"}
    try:
        obj = C("d", U, L, bks)
    except NotImplementedError as exc:
        return dict(res, status="skipped", note=str(exc))
    res["out"] = str(obj)
    kind = "S" if cls == "S" else "A"
    # related tuples -> identical object up to the prescribed sign
    rng = random.Random(sd)
    rel = related(kind, bks, U, L)
    rng.shuffle(rel)
    antisym_diag = bks == -1 and sorted(map(str, U)) == sorted(map(str, L))
    for (u2, l2, sg) in rel[:6]:
        if antisym_diag:
            break       # bra-ket antisymmetric diagonal: not among the zeros the property lists
        o2 = C("d", u2, l2, bks)
        if o2 != sg * obj:
            res["det"].append(f"{C.__name__}('d', {u2}, {l2}, {bks}) = {o2} but expected {sg} * {obj}")
    # forced zero: repeated index in an antisymmetric group
    if kind == "A" and (len(set(U)) < len(U) or len(set(L)) < len(L)) and obj is not S.Zero:
        res["det"].append("repeated index in an antisymmetric group does not give zero")
    spin = any(s.spin for s in idx)
    # the model hosts the largest antisymmetric group (else every entry is a forced zero)
    cnt = {"occ": 2, "virt": 2}
    for grp in (U, L):
        for sp in cnt:
            cnt[sp] = max(cnt[sp], sum(1 for s in grp if s.space == sp))
    model = Model(2, 2, spin=True) if spin else Model(min(4, cnt["occ"]), min(4, cnt["virt"]))
    Uir, Lir = tuple(IR.idx_ir(s) for s in U), tuple(IR.idx_ir(s) for s in L)
    ref = EntryRef("d", kind, Uir, Lir, bks)
    target = list(dict.fromkeys(idx))
    oc = compare(ref, obj, target, model, timeout_ms=TIMEOUT, seed=seed(),
                 spec_extra={("d", nu, nl): (kind, bks)})
    res.update(oc.as_dict())
    res["witness"], res["model"] = oc.witness, model.tag
    res["nontrivial"] = obj is not S.Zero
    # substitution
    if obj is not S.Zero and oc.status == "equal":
        stored = obj.atoms(C)
        t = next(iter(stored))
        sgn = obj / t
        pool_idx = [sym(*POOL[k]) for k in rng.sample(range(len(POOL)), 5)]
        m = {}
        for s in set(t.upper) | set(t.lower):
            if rng.random() < 0.6:
                cands = [x for x in pool_idx if x.space == s.space and x.spin == s.spin]
                if cands:
                    m[s] = rng.choice(cands)
        if m:
            sub = obj.subs(m, simultaneous=True)
            U2 = tuple(m.get(s, s) for s in t.upper)
            L2 = tuple(m.get(s, s) for s in t.lower)
            ref2 = EntryRef("d", kind, tuple(IR.idx_ir(s) for s in U2),
                            tuple(IR.idx_ir(s) for s in L2), bks, scale=int(sgn))
            tgt2 = list(dict.fromkeys(U2 + L2))
            oc2 = compare(ref2, sub, tgt2, model, timeout_ms=TIMEOUT, seed=seed(),
                          spec_extra={("d", nu, nl): (kind, bks)})
            res["queries"] += oc2.queries
            res["unsat"] += oc2.unsat
            res["sat"] += oc2.sat
            res["solver_s"] += oc2.solver_s
            if oc2.status == "differ":
                res["status"] = "differ"
                res["witness"] = dict(oc2.witness or {}, substitution=str(m))
                res["in"] += f".subs({m})"
                res["out"] = str(sub)
    return res


def run_delta(item):
    a, b = item
    from adcgen.sympy_objects import KroneckerDelta
    i, j = sym(*POOL[a]), sym(*POOL[b])
    d = KroneckerDelta(i, j)
    res = {"item": item, "in": f"KroneckerDelta({i}, {j})", "out": str(d), "det": []}
    spin = bool(i.spin or j.spin)
    model = Model(2, 2, spin=True) if spin else Model(2, 2)

    class DRef:
        irs = []

        def __call__(self, model, val, tau):
            return [(Fraction(1), ())] if tau[IR.idx_ir(i)] == tau[IR.idx_ir(j)] else []
    oc = compare(DRef(), d, list(dict.fromkeys([i, j])), model, timeout_ms=TIMEOUT, seed=seed())
    res.update(oc.as_dict())
    res["witness"], res["model"] = oc.witness, model.tag
    disjoint = not (set(model.idx_range(IR.idx_ir(i))) & set(model.idx_range(IR.idx_ir(j))))
    if disjoint and d is not S.Zero:
        res["det"].append("delta between disjoint spaces / spins is not zero")
    if d is not S.Zero and d is not S.One:
        if KroneckerDelta(j, i) != d:
            res["det"].append("delta(i,j) and delta(j,i) are different objects")
        if d ** 2 != d or d ** 3 != d:
            res["det"].append("delta**n is not delta")
    res["nontrivial"] = d is not S.Zero and d is not S.One
    return res


def run_assumption(item):
    sd = item
    rng = random.Random(sd)
    from adcgen import Expr
    from vlib.gen import TermGen, consistent_bks
    g = TermGen(rng, spaces="ovg", n_tensors=(2, 3), max_contracted=4, max_target=4,
                names=["V", "f", "d0", "d0", "t1", "t1cc", "t2cc", "t2", "Y", "c"], exclude=(),
                exponents=0.3)
    terms = [g.term() for _ in range(rng.randint(1, 2))]
    raw = Add(*terms)
    mode = rng.choice(["real", "sym", "antisym", "ctor"])
    res = {"item": item, "det": [], "mode": mode}
    e0 = Expr(raw)
    if e0.sympy is S.Zero:
        return dict(res, status="skipped")
    try:
        if mode == "real":
            e1 = Expr(raw).make_real()
            e2 = e1.copy().make_real()
        elif mode == "sym":
            e1 = Expr(raw)
            e1.set_sym_tensors(["d0"])
            e2 = e1.copy()
            e2.set_sym_tensors(["d0"])
        elif mode == "antisym":
            e1 = Expr(raw)
            e1.set_antisym_tensors(["d0"])
            e2 = e1.copy()
            e2.set_antisym_tensors(["d0"])
        else:
            e1 = Expr(raw, real=True, sym_tensors=["d0"])
            e2 = Expr(e1.sympy, **e1.assumptions)
    except Exception as exc:
        return dict(res, status="skipped", note=f"{type(exc).__name__}: {exc}")
    res["in"], res["out"] = str(e0), str(e1)
    if e2.sympy != e1.sympy or e2.assumptions != e1.assumptions:
        res["det"].append(f"declaring the assumption '{mode}' twice is not idempotent")
    val_opts = {}
    spec_extra = None
    if mode in ("real", "ctor"):
        val_opts = {"alias": {f"t{n}cc": f"t{n}" for n in range(1, 5)}}
    if e1.sympy is S.Zero:
        # the assumption may force the expression to vanish (e.g. antisymmetric diagonal)
        pass
    from adcgen.indices import Index
    irs = [IR.expr_ir(e0.sympy), IR.expr_ir(e1.sympy)]
    from vlib.tv import default_target
    Tir = default_target(irs[:1])
    allobj = {IR.idx_ir(s): s for s in e0.sympy.atoms(Index)}
    target = [allobj[k] for k in Tir]
    model = pick_model(irs, Tir, [Model(2, 2), Model(2, 1), Model(1, 1)], budget=150000)
    from vlib.poly import Unsupported
    try:
        oc = compare(e0.sympy, e1.sympy, target, model, timeout_ms=TIMEOUT, seed=seed(),
                     val_opts=val_opts)
    except Unsupported as exc:
        return dict(res, status="skipped", note=str(exc))
    res.update(oc.as_dict())
    res["witness"], res["model"] = oc.witness, model.tag
    res["nontrivial"] = str(e0) != str(e1)
    return res


from vlib.ch_c06 import ch_conditions  # noqa: E402


def main():
    global TIMEOUT
    ap = argparse.ArgumentParser()
    ap.add_argument("--tier", default="quick")
    ap.add_argument("--replay")
    a = ap.parse_args()
    if a.replay:
        import json
        p = json.load(open(a.replay))
        it = p["item"]
        part = p.get("part")
        if part == "tensor":
            it[4] = tuple(it[4])
            r = run_tensor(tuple(it))
        elif part == "delta":
            r = run_delta(tuple(it))
        else:
            r = run_assumption(it)
        print(json.dumps({k: r.get(k) for k in ("status", "in", "out", "det", "witness")},
                         indent=1, default=str))
        return 1 if (r.get("status") == "differ" or r.get("det")) else 0
    quick = a.tier == "quick"
    TIMEOUT = 20000 if quick else 120000
    run = Run("C06", a.tier, "translation_validation")
    from concurrent.futures import ThreadPoolExecutor
    ex = ThreadPoolExecutor(max_workers=1)
    fut = ex.submit(chrun.run_conditions, ch_conditions(a.tier), "", 8)
    rng = random.Random(seed() * 31 + 6)
    titems = []
    shapes = [(1, 1), (2, 2), (2, 1), (1, 2), (3, 3), (4, 2), (4, 4), (5, 1)] if not quick \
        else [(1, 1), (2, 2), (2, 1), (3, 3), (4, 2), (4, 4)]
    for cls in "ASM":
        for bks in (0, 1, -1):
            for (nu, nl) in shapes:
                if bks and nu != nl:
                    continue
                total = len(POOL) ** (nu + nl)
                if (nu, nl) == (1, 1):
                    picks_list = list(product(range(len(POOL)), repeat=2))
                elif not quick and (nu, nl) == (2, 2) and cls != "M":
                    picks_list = [tuple(rng.randrange(len(POOL)) for _ in range(4)) for _ in range(3000)]
                elif max(nu, nl) >= 4:
                    k = {(4, 2): 30, (4, 4): 8, (5, 1): 0}[(nu, nl)] if quick else \
                        {(4, 2): 300, (4, 4): 100, (5, 1): 100}[(nu, nl)]
                    # spinless indices only (a spin model with 2 spatial orbitals per space
                    # cannot host four indices of one spin); mostly one space per group
                    nospin = [q for q, (nm, sp) in enumerate(POOL) if not sp]
                    picks_list = [tuple(rng.choice(nospin) for _ in range(nu + nl)) for _ in range(k)]
                else:
                    k = 40 if quick else 600
                    picks_list = [tuple(rng.randrange(len(POOL)) for _ in range(nu + nl)) for _ in range(k)]
                if quick and (nu, nl) == (1, 1):
                    picks_list = rng.sample(picks_list, 60)
                for pk in picks_list:
                    titems.append((cls, bks, nu, nl, pk, rng.randrange(10 ** 6)))
    tres = pmap(run_tensor, titems, limit=120, chunksize=8)
    ditems = list(product(range(len(POOL)), repeat=2))
    dres = pmap(run_delta, ditems, limit=60, chunksize=8)
    n_as = 200 if quick else 3000
    ares = pmap(run_assumption, [seed() * 1000003 + 600 + k for k in range(n_as)], limit=120)
    for part, results in (("tensor", tres), ("delta", dres), ("assumption", ares)):
        for r in results:
            st = r.get("status")
            it = r.get("item")
            sub = part
            if part == "tensor" and isinstance(it, tuple):
                sub = f"tensor/{it[0]}{it[1]:+d}/{it[2]}|{it[3]}"
            if part == "assumption":
                sub = f"assumption/{r.get('mode')}"
            run.add_outcome(sub, r, sample={"input": r.get("in"), "object": r.get("out"),
                                           "model": r.get("model"), "verdict": st}
                            if st == "equal" and r.get("nontrivial") and (part != "tensor" or it[2] >= 2) else None,
                            distinct_key=(part, r.get("in")), nontrivial=bool(r.get("nontrivial")))
            payload = {"part": part, "item": list(it) if isinstance(it, tuple) else it,
                       "input": r.get("in"), "output": r.get("out"), "witness": r.get("witness")}
            if st == "differ":
                run.violation(f"{part}:{r.get('in')}", f"{r.get('in')} -> {r.get('out')}: value differs from the declared symmetry", payload)
            for d in r.get("det", []):
                run.violation(f"{part}-det:{d[:60]}:{r.get('in')}", d, dict(payload, deterministic=d))
            if st == "error" and "HarnessError" in r.get("error", ""):
                run.harness_error(r["error"])
    for c in chrun.record(run, "e3/crosshair", fut.result()):
        run.violation(f"crosshair:{c.name}:{getattr(c, 'call', '')}",
                      f"CrossHair counterexample for {c.name}: {getattr(c, 'call', '')} ({c.replayed})",
                      {"condition": c.name, "call": getattr(c, "call", None), "message": c.message[-500:]})
    run.cov["functions_encoded"] = [
        {"function": "AntiSymmetricTensor/SymmetricTensor/Amplitude.__new__, KroneckerDelta.eval/_eval_power, subs; Expr.__init__/make_real/set_sym_tensors/set_antisym_tensors (run concretely, objects encoded)",
         "source_sha": driver.src_hash(*FILES)},
        {"function": "AntiSymmetricTensor._need_bra_ket_swap, sort_idx_canonical, KroneckerDelta.preferred_and_killable (regenerated from source, duck-typed indices) [CrossHair]"}]
    run.cov["bounds"] = {
        "index pool": [f"{n}{'_' + s if s else ''}" for n, s in POOL],
        "tensors": "classes AntiSymmetric/Symmetric/Amplitude x bra-ket 0/+1/-1 x ranks 1|1 (all pairs" + (" sampled" if quick else "") + "), 2|2, 2|1, 3|3 (sampled); models 2o2v / 2o2v x {a,b}",
        "deltas": "all pairs of the pool",
        "assumptions": f"{n_as} generated expressions: make_real, set_sym_tensors, set_antisym_tensors, constructor arguments",
        "crosshair": "rank 1|1: spins and names (from a list of 5, thorough 8, incl. numbered names 2 vs 10) symbolic for every pair of spaces; rank 2|2: spaces and spins symbolic for 2 (3) fixed name patterns; preferred_and_killable: all attribute pairs of non-vanishing deltas",
        "z3_timeout_ms": TIMEOUT}
    run.cov["rule"] = "exhaustive / seeded enumeration of raw index tuples; non-trivial = non-zero object; distinct = distinct constructor calls"
    run.assumptions += [
        "the oracle for 'declared symmetry' is vlib/model.canon_entry (bubble sort with parity, lexicographic bra-ket choice), which shares no code with adcgen",
        "CrossHair stubs: duck-typed Index class with space/spin/name, hash(idx) = 0 (the hash only orders same-named dummies)",
    ]
    sys.exit(run.finish())


if __name__ == "__main__":
    main()
