"""
C17  Generated contraction code evaluates to the expression it came from.

The real generate_code is run for both back ends; the emitted text is parsed and
evaluated by an independent interpreter (vlib/codeinterp.py: prefactors, tensor
block names, index strings, nested einsum / contract / dot_product calls, and
the permutation operators applied to the target assignment) which returns
polynomials in the symbolic tensor entries; z3 decides equality with the value
of the expression for every tensor valuation and every target assignment in the
requested order.
"""
import argparse
import random
import sys

from sympy import Add, Mul, S, Rational, sqrt, Symbol

from vlib import driver
from vlib import ir as IR
from vlib.codeinterp import parse_program, printed_names, Interp, CodeError
from vlib.driver import Run, pmap, seed
from vlib.model import Model
from vlib.tv import compare, pick_model
from vlib.gen import TermGen, POOL, consistent_bks

FILES = ["adcgen/generate_code/generate_code.py", "adcgen/generate_code/optimize_contractions.py",
         "adcgen/sort_expr.py", "adcgen/expr_container.py"]
TIMEOUT = 20000
MODELS = [Model(2, 2), Model(2, 1), Model(1, 1)]
NAMES = {"eri": "V", "fock": "f", "gs_amplitude": "t", "gs_density": "p",
         "left_adc_amplitude": "X", "right_adc_amplitude": "Y"}


class CodeRef:
    irs = []

    def __init__(self, program, inventory, symbols, target_labels, label_of):
        self.program, self.inventory, self.symbols = program, inventory, symbols
        self.target_labels, self.label_of = target_labels, label_of

    def __call__(self, model, val, tau):
        it = Interp(self.program, self.inventory, self.symbols, self.target_labels, model, val)
        return it.value({self.label_of[k]: o for k, o in tau.items()})


def inventory_of(expr, backend):
    inv = {}
    ambiguous = []

    def visit(f):
        if f[0] in "tnd":
            name, desc = printed_names(f, backend, NAMES)
            if name in inv and inv[name] != desc:
                ambiguous.append(name)
            inv[name] = desc
        elif f[0] == "p":
            for t in f[1]:
                for g in t[2]:
                    visit(g)
    for t in IR.expr_ir(expr):
        for f in t[2]:
            visit(f)
    return inv, ambiguous


def build_expr(rng):
    from adcgen.indices import get_symbols
    shape = rng.choice(["ia", "ij", "ab", "ia,jb", "ij,ab", "ijab", "i", "", "ijk", "i,a", "ab,ij"])
    names = shape.replace(",", "")
    T = get_symbols(names) if names else []
    g = TermGen(rng, spaces="ov", n_tensors=(1, 3), max_contracted=4,
                names=["V", "f", "t1", "t2", "Y", "X", "c", "d0", "b", "p2"], exclude=(),
                symbols=0.15, deltas=(0, 1), exponents=0.08)
    terms = []
    n_terms = rng.randint(1, 3)
    t0 = None
    for _ in range(n_terms):
        try:
            t = g.term_with_target(T)
        except RuntimeError:
            continue
        if rng.random() < 0.15:
            # symbolic prefactors (plain symbols, powers, inverse)
            t = t * rng.choice([Symbol("x"), Symbol("x") * Symbol("y"), Symbol("x") ** 2, 1 / Symbol("x")])
        terms.append(t)
        if t0 is None:
            t0 = t
    if not terms:
        raise RuntimeError("no term")
    if not names and rng.random() < 0.3:
        # a term without any tensor (number and symbolic prefactor only)
        terms.append(rng.choice([2, Rational(1, 2), -3]) * rng.choice([Symbol("x"), 1 / Symbol("x"), S.One]))
    # a second term built from the same objects with differently wired contracted indices
    # (one tensor transposed in two contracted indices): same object descriptions, other value
    if t0 is not None and rng.random() < 0.35:
        from adcgen.indices import Index
        from sympy import Mul
        facs = [f_ for f_ in Mul.make_args(t0) if f_.atoms(Index)]
        cnt = {}
        for f_ in facs:
            for s_ in f_.atoms(Index):
                cnt[s_] = cnt.get(s_, 0) + 1
        contracted = [s_ for s_ in cnt if s_ not in T]
        opts = []
        for f_ in facs:
            here = [s_ for s_ in f_.atoms(Index) if s_ in contracted]
            for n_, x in enumerate(here):
                for y in here[n_ + 1:]:
                    if x.space == y.space and x.spin == y.spin:
                        opts.append((f_, x, y))
        if opts and len(facs) >= 2:
            f_, x, y = rng.choice(opts)
            f2 = f_.xreplace({x: y, y: x})
            t1 = t0 / f_ * f2
            if t1 is not S.Zero:
                terms.append(rng.choice([2, -1, Rational(1, 2), -3]) * t1)
    # add symmetry partners so that permutation operators appear in the output
    if len(T) >= 2 and rng.random() < 0.5:
        by_space = {}
        for s in T:
            by_space.setdefault(s.space, []).append(s)
        for lst in by_space.values():
            if len(lst) >= 2:
                p, q = rng.sample(lst, 2)
                f = rng.choice([1, -1])
                terms = terms + [f * x.xreplace({p: q, q: p}) for x in terms[:1]]
                break
    return Add(*terms), shape, T


def run_case(item):
    sd, backend, optimise = item
    rng = random.Random(sd)
    from adcgen import Expr
    from adcgen.generate_code import generate_code
    from adcgen.indices import Index
    from adcgen.misc import Inputerror
    try:
        raw, shape, T = build_expr(rng)
    except RuntimeError:
        return {"status": "skipped", "item": item}
    if raw is S.Zero or raw.is_number and shape or not consistent_bks(raw):
        return {"status": "skipped", "item": item}
    e = Expr(raw)
    if any(set(t.target) != set(T) for t in e.terms):
        return {"status": "skipped", "item": item}
    # the generated code only prints index names
    names_seen = {}
    for s in e.sympy.atoms(Index):
        if names_seen.setdefault(s.name, s) is not s:
            return {"status": "skipped", "item": item}
    parts = shape.split(",")
    bks = rng.choice([0, 0, 1, -1]) if len(parts) == 2 and len(parts[0]) == len(parts[1]) else 0
    anti = rng.random() < 0.7
    # requested order: a permutation of the target indices (within bra / ket if separated)
    def shuffled(s_):
        lst = list(s_)
        rng.shuffle(lst)
        return "".join(lst)
    req = ",".join(shuffled(p_) for p_ in parts)
    max_dim = rng.choice([None, None, 2, 4])
    max_n = rng.choice([None, None, 2, 3])
    res = {"item": item, "in": str(e), "target": req, "backend": backend,
           "options": f"bra_ket_sym={bks}, antisymmetric_result_tensor={anti}, max_itmd_dim={max_dim}, "
                      f"max_n_simultaneous_contracted={max_n}, optimize={optimise}",
           "status": "equal"}
    try:
        code = generate_code(e.copy(), req, None, bks, anti, backend, max_dim, max_n, optimise)
    except NotImplementedError as exc:
        return dict(res, status="skipped", note=f"documented refusal: {str(exc)[:100]}")
    except Inputerror as exc:
        return dict(res, status="skipped", note=f"input refused: {str(exc)[:100]}")
    except RuntimeError as exc:
        if "Could not find a valid contraction scheme" in str(exc):
            return dict(res, status="skipped", note="no scheme within the limits")
        raise
    res["out"] = code[:700]
    inv, amb = inventory_of(e.sympy, backend)
    if amb:
        return dict(res, status="skipped", note=f"printed names {amb} are ambiguous for this input")
    try:
        program = parse_program(code, cpp=(backend == "libtensor"))
    except CodeError as exc:
        return dict(res, status="differ", witness={"malformed code": str(exc)})
    symbols = {s.name for s in e.sympy.atoms(Symbol) if not isinstance(s, Index)
               and s.name not in {x.name for x in e.sympy.atoms(Index)}}
    from adcgen.sympy_objects import SymbolicTensor
    tens_syms = {t.symbol for t in e.sympy.atoms(SymbolicTensor)}
    symbols = {s.name for s in e.sympy.atoms(Symbol)
               if not isinstance(s, Index) and s not in tens_syms}
    labels = [c for c in req.replace(",", "")]
    from vlib.codeinterp import split_labels
    labels = split_labels(req.replace(",", ""))
    label_of = {IR.idx_ir(s): s.name for s in T}
    ref = CodeRef(program, inv, symbols, labels, label_of)
    ref.irs = [IR.expr_ir(e.sympy)]
    Tir = {IR.idx_ir(s) for s in T}
    model = pick_model([IR.expr_ir(e.sympy)], Tir, MODELS, budget=60000)
    try:
        oc = compare(ref, e.sympy, T, model, timeout_ms=TIMEOUT, seed=seed())
    except CodeError as exc:
        return dict(res, status="differ", witness={"code cannot be interpreted": str(exc)})
    res.update(oc.as_dict())
    res["witness"], res["model"] = oc.witness, model.tag
    res["nontrivial"] = "einsum(" in code or "contract(" in code or "dot_product(" in code
    res["has_perm"] = "P_" in code
    return res


def main():
    global TIMEOUT
    ap = argparse.ArgumentParser()
    ap.add_argument("--tier", default="quick")
    ap.add_argument("--replay")
    a = ap.parse_args()
    if a.replay:
        import json
        p = json.load(open(a.replay))
        r = run_case(tuple(p["item"]))
        print(json.dumps({k: r.get(k) for k in ("status", "in", "target", "backend", "options", "out", "witness")},
                         indent=1, default=str))
        return 1 if r.get("status") == "differ" else 0
    quick = a.tier == "quick"
    TIMEOUT = 20000 if quick else 120000
    run = Run("C17", a.tier, "translation_validation")
    n = 800 if quick else 8000
    base = seed() * 1000003 + 1700
    combos = [("einsum", True), ("libtensor", True), ("einsum", False), ("libtensor", False)]
    items = [(base + k, *combos[k % 4]) for k in range(n)]
    results = pmap(run_case, items, limit=240 if quick else 900)
    nperm = 0
    for r in results:
        st = r.get("status")
        nperm += bool(r.get("has_perm")) and st == "equal"
        run.add_outcome(f"{r.get('backend', '?')}/{'optimised' if r.get('item', (0, 0, 0))[2] else 'unoptimised'}", r,
                        sample={"expr": r.get("in", "")[:200], "target": r.get("target"),
                                "options": r.get("options"), "code": (r.get("out") or "")[:400],
                                "model": r.get("model"), "verdict": st}
                        if st == "equal" and r.get("nontrivial") else None,
                        distinct_key=(r.get("in"), r.get("target"), r.get("backend"), r.get("options")),
                        nontrivial=bool(r.get("nontrivial")))
        if st == "differ":
            run.violation(f"generate_code:{r.get('in')}|{r.get('target')}|{r.get('backend')}|{r.get('options')}",
                          f"generated {r.get('backend')} code does not evaluate to {r.get('in', '')[:150]} (target {r.get('target')}): {(r.get('out') or '')[:200]}",
                          {"item": list(r["item"]), "api": "generate_code", "input": r.get("in"),
                           "target": r.get("target"), "backend": r.get("backend"), "options": r.get("options"),
                           "output": r.get("out"), "witness": r.get("witness")})
        if st == "error" and "HarnessError" in r.get("error", ""):
            run.harness_error(r["error"])
    run.cov["programs_with_permutation_operators"] = nperm
    run.cov["functions_encoded"] = [
        {"function": "generate_code / format_contraction / format_einsum_contraction / format_libtensor_contraction / translate_* / format_prefactor / format_perm_symmetry, exploit_perm_sym, optimize_contractions (run concretely; the emitted text is interpreted and encoded)",
         "source_sha": driver.src_hash(*FILES)}]
    run.cov["bounds"] = {
        "expressions": "1-3 terms (+ symmetry partner) of 1-3 tensors (V, f, t amplitudes, ADC vectors, density, non-symmetric tensors, deltas, symbols, exponent 2, rational / sqrt prefactors), <= 4 contracted",
        "targets": "strings '', i, ia, ij, ab, ijk, ijab, 'i,a', 'ia,jb', 'ij,ab', 'ab,ij' in a random requested order; bra-ket 0/+1/-1; (anti)symmetric result tensor",
        "backends": ["einsum", "libtensor"], "optimised": [True, False], "models": "<= 2o2v",
        "shapes": n, "z3_timeout_ms": TIMEOUT}
    run.cov["rule"] = "seeded generator; non-trivial = the code contains a contraction call; distinct = distinct (expression, target, backend, options)"
    run.assumptions += [
        "inputs whose index names are not unique (same name with different spin) are skipped: the code prints names only (the library logs a warning there)",
        "inputs for which two different tensors print the same block name (e.g. a tensor called d and the delta, both d_oo) are skipped and counted",
        "documented NotImplementedError refusals give no verdict",
    ]
    sys.exit(run.finish())


if __name__ == "__main__":
    main()
