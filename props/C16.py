"""
C16  Contraction schemes compute the term and respect their stated bounds.

E1: the real optimize_contractions / unoptimized_contraction are run on
generated terms for several limit settings; the returned list of Contractions is
*interpreted by the harness* (each step: explicit sum over its contracted indices
of the product of its operands, operands = tensors of the term or earlier
results); z3 decides that the last step, read in the requested target order,
equals the value of the term for all tensor entries and target assignments.
Use-once / sum-once / limits / reported scaling / not worse than the single
simultaneous contraction are direct checks on the returned objects.
E3: _split_contracted_and_target, _determine_scaling and _group_objects run
under CrossHair with symbolic index layouts.
"""
import argparse
import random
import sys
from collections import Counter
from fractions import Fraction

from sympy import Mul, S, Symbol, Pow

from vlib import driver, chrun
from vlib import ir as IR
from vlib.driver import Run, pmap, seed
from vlib.model import Model
from vlib.poly import ml_mul, ONE, _factor_value
from vlib.tv import compare, pick_model
from vlib.gen import TermGen, POOL, consistent_bks

FILES = ["adcgen/generate_code/optimize_contractions.py", "adcgen/generate_code/contraction.py"]
TIMEOUT = 20000
MODELS = [Model(2, 2), Model(2, 1), Model(1, 1)]


class SchemeRef:
    """Interpreter of a contraction scheme."""
    irs = []

    def __init__(self, steps, operand_ir, final_target):
        # steps: list of dicts {name, names, indices (ir), contracted (ir), target (ir)}
        self.steps = steps
        self.by_name = {s["name"]: k for k, s in enumerate(steps)}
        self.operand_ir = operand_ir      # {(step, pos): IR factor with exponent 1}
        self.final_target = final_target
        self._memo = {}

    def value(self, k, asg, model, val):
        st = self.steps[k]
        key = (id(val), k, tuple(asg[s] for s in st["target"]))
        hit = self._memo.get(key)
        if hit is not None:
            return hit
        out = []
        contracted = st["contracted"]
        ranges = [model.idx_range(s) for s in contracted]
        base = {s: asg[s] for s in st["target"]}

        def rec(d, cur):
            if d == len(contracted):
                acc = ONE
                for pos, (nm, idx) in enumerate(zip(st["names"], st["indices"])):
                    if nm in self.by_name:
                        sub = self.steps[self.by_name[nm]]
                        # the operand carries the earlier result in the index order given here
                        sub_asg = dict(zip(sub["target"], (cur[s] for s in idx)))
                        if len(sub["target"]) != len(idx):
                            raise ValueError("operand rank differs from the rank of the earlier result")
                        v = self.value(self.by_name[nm], sub_asg, model, val)
                    else:
                        v = _factor_value(self.operand_ir[(k, pos)], cur, val)
                    if not v:
                        return
                    acc = ml_mul(acc, v)
                out.extend(acc)
                return
            s = contracted[d]
            for o in ranges[d]:
                cur[s] = o
                rec(d + 1, cur)
            del cur[s]
        rec(0, dict(base))
        self._memo[key] = out
        return out

    def __call__(self, model, val, tau):
        last = len(self.steps) - 1
        asg = {s: tau[s] for s in self.steps[last]["target"]}
        return self.value(last, asg, model, val)


def scaling_tuple(contracted, target):
    def cnt(lst, sp):
        return sum(1 for s in lst if s[1] == sp)
    comp = {sp: cnt(contracted, sp) + cnt(target, sp) for sp in "gvo"}
    mem = {sp: cnt(target, sp) for sp in "gvo"}
    return ((sum(comp.values()), comp["g"], comp["v"], comp["o"]),
            (len(target), mem["g"], mem["v"], mem["o"]))


def _two_hyper_term(rng, n_second):
    """A_ia B_ij C_ij D_jb G_jc ...: two hyper indices (i on three, j on 2 + n_second objects); a
    minimal group of three objects closes in one step to all objects that carry i or j"""
    from adcgen.indices import get_symbols
    from adcgen.sympy_objects import NonSymmetricTensor
    occ = list(get_symbols("ijklmn"))
    virt = list(get_symbols("abcdef"))
    rng.shuffle(occ)
    rng.shuffle(virt)
    i, j = occ[0], occ[1]
    names = ["c", "b", "g", "w", "x", "y", "z"]
    rng.shuffle(names)
    objs = [NonSymmetricTensor(names[0], (i, virt.pop())),
            NonSymmetricTensor(names[1], (i, j)) ** rng.choice([1, 1, 2])]
    if objs[1].is_Pow:
        pass
    else:
        objs.append(NonSymmetricTensor(names[2], (i, j) if rng.random() < 0.5 else (j, i)))
    for k in range(n_second):
        objs.append(NonSymmetricTensor(names[3 + k], (j, virt.pop())))
    rng.shuffle(objs)
    from sympy import Mul as _Mul
    return _Mul(*objs)


def run_case(item):
    sd, max_dim, max_n = item[:3]
    rng = random.Random(sd)
    from adcgen import Expr
    from adcgen.indices import Index, get_symbols
    from adcgen.generate_code.optimize_contractions import (optimize_contractions,
                                                            unoptimized_contraction)
    from adcgen.generate_code.contraction import Contraction
    hyper = rng.random() < 0.35
    spin = rng.random() < 0.25           # spin-labelled indices, target_spin given
    g = TermGen(rng, spaces="ov", spin=spin, n_tensors=rng.choice([(1, 1), (2, 4), (2, 4), (2, 4)]) if not spin else (1, 3),
                max_contracted=5 if not spin else 3, max_target=4 if not spin else 3,
                names=["V", "f", "t1", "t2", "Y", "X", "c", "b", "d0"], exclude=(),
                exponents=0.2, deltas=(0, 1), symbols=0.2, pool_size=4 if hyper else 6)
    try:
        term = g.term()
    except RuntimeError:
        return {"status": "skipped", "item": item}
    if len(item) > 3 and item[3] == "two_hyper":
        spin = False
        term = _two_hyper_term(random.Random(sd + 17), item[4])
    if term is S.Zero or not consistent_bks(term):
        return {"status": "skipped", "item": item}
    allidx = sorted(term.atoms(Index), key=lambda s: (s.space, s.name, s.spin))
    if spin and len({s.name for s in allidx}) != len(allidx):
        return {"status": "skipped", "item": item}     # one name with two spins: the target string is ambiguous
    tir = IR.term_ir(term)
    cnt = Counter(IR.term_indices(tir))
    byir = {IR.idx_ir(s): s for s in allidx}
    T = [byir[k] for k, c in cnt.items() if c == 1]
    if hyper:
        # promote some repeated indices to target indices (explicit targets)
        for s in allidx:
            if s not in T and rng.random() < 0.25:
                T.append(s)
    rng.shuffle(T)                                   # requested order
    tstr = "".join(s.name for s in T)
    tspin = "".join(s.spin for s in T) if spin else None
    e = Expr(term, target_idx=T)
    t = e.terms[0]
    res = {"item": item, "in": str(e), "target": tstr + (f" spin {tspin}" if spin else ""),
           "limits": f"max_itmd_dim={max_dim}, max_n={max_n}",
           "det": [], "status": "equal"}
    try:
        scheme = optimize_contractions(t, tstr, tspin, max_dim, max_n)
    except RuntimeError as exc:
        if "Could not find a valid contraction scheme" in str(exc) and (max_dim is not None or max_n is not None):
            return dict(res, status="skipped", note="no scheme within the limits (documented RuntimeError)")
        raise
    except NotImplementedError as exc:
        return dict(res, status="skipped", note=str(exc)[:80])
    if isinstance(scheme, Contraction):
        scheme = [scheme]
    unopt = unoptimized_contraction(t, tstr, tspin)
    res["out"] = "; ".join(f"{c.contraction_name}={c.names}{tuple(tuple(map(str, i)) for i in c.indices)}->{tuple(map(str, c.target))}"
                           for c in scheme)[:600]
    res["n_steps"] = len(scheme)
    if not scheme:
        return dict(res, status="skipped")
    # ---- operands: match tensor operands with the objects of the term ---------------
    pool = []           # (longname, idx objects, IR factor with exponent 1)
    for o in t.objects:
        base, ex = o.base_and_exponent
        if o.sympy.is_number or isinstance(base, Symbol):
            continue
        f = IR.factor_ir(base)
        for _ in range(int(ex)):
            pool.append([o.longname(), tuple(o.idx), f])
    steps = []
    operand_ir = {}
    names_defined = set()
    Tir = [IR.idx_ir(s) for s in T]
    summed = Counter()
    for k, c in enumerate(scheme):
        idx_ir = [tuple(IR.idx_ir(s) for s in tup) for tup in c.indices]
        st = {"name": c.contraction_name, "names": list(c.names), "indices": idx_ir,
              "contracted": [IR.idx_ir(s) for s in c.contracted],
              "target": [IR.idx_ir(s) for s in c.target]}
        for pos, (nm, tup) in enumerate(zip(c.names, c.indices)):
            if Contraction.is_contraction(nm):
                if nm not in names_defined:
                    res["det"].append(f"step {k} uses {nm} before it is defined")
                names_defined.discard(nm)          # an earlier result is consumed once
                continue
            hit = next((p for p in pool if p[0] == nm and p[1] == tuple(tup)), None)
            if hit is None:
                res["det"].append(f"step {k}: operand {nm}{tuple(map(str, tup))} is not an (unused) object of the term")
                continue
            pool.remove(hit)
            operand_ir[(k, pos)] = hit[2]
        names_defined.add(c.contraction_name)
        for s in st["contracted"]:
            summed[s] += 1
        steps.append(st)
        # limits
        if max_n is not None and len(c.names) > max_n:
            res["det"].append(f"step {k} contracts {len(c.names)} objects > {max_n}")
        # (an intermediate that already carries exactly the indices of the final result
        #  is exempt, as documented in the code: it needs no more memory than the result)
        if max_dim is not None and k < len(scheme) - 1 and len(c.target) > max_dim \
                and set(st["target"]) != set(Tir):
            res["det"].append(f"intermediate of step {k} has {len(c.target)} indices > {max_dim}")
        # reported scaling
        want = scaling_tuple(st["contracted"], st["target"])
        got = ((c.scaling.computational.total, c.scaling.computational.general,
                c.scaling.computational.virt, c.scaling.computational.occ),
               (c.scaling.memory.total, c.scaling.memory.general, c.scaling.memory.virt,
                c.scaling.memory.occ))
        if want != got:
            res["det"].append(f"step {k}: reported scaling {got} != recomputed {want}")
        # an index must not be summed and kept at the same time
        if set(st["contracted"]) & set(st["target"]):
            res["det"].append(f"step {k}: index both contracted and target")
    if pool:
        res["det"].append(f"objects of the term not used by the scheme: {[p[0] for p in pool]}")
    if names_defined != {scheme[-1].contraction_name}:
        res["det"].append(f"results left unused: {sorted(names_defined - {scheme[-1].contraction_name})}")
    want_contr = {s for s in cnt if s not in Tir}
    if set(summed) != want_contr or any(v != 1 for v in summed.values()):
        res["det"].append(f"contracted indices summed {dict((IR.idx_str(k_), v) for k_, v in summed.items())}, "
                          f"expected each of {sorted(IR.idx_str(s) for s in want_contr)} exactly once")
    if steps[-1]["target"] != Tir:
        res["det"].append(f"final result carries {[IR.idx_str(s) for s in steps[-1]['target']]}, "
                          f"requested {[IR.idx_str(s) for s in Tir]}")
    # not worse than the single simultaneous contraction
    worst = max(scaling_tuple(s["contracted"], s["target"])[0] for s in steps)
    u = unopt[0]
    uw = (u.scaling.computational.total, u.scaling.computational.general,
          u.scaling.computational.virt, u.scaling.computational.occ)
    if worst > uw:
        res["det"].append(f"maximal computational scaling {worst} worse than the simultaneous contraction {uw}")
    if res["det"]:
        res["status"] = "differ"
        return res
    # ---- solver: value of the scheme == value of the term (numbers / symbols stripped) --
    stripped = Mul(*[o.sympy for o in t.objects
                     if not o.sympy.is_number and not isinstance(o.base, Symbol)])
    ref = SchemeRef(steps, operand_ir, Tir)
    ref.irs = [IR.expr_ir(stripped)]
    model = pick_model([IR.expr_ir(stripped)], set(Tir),
                       MODELS if not spin else [Model(2, 2, spin=True), Model(1, 1, spin=True)], budget=60000)
    try:
        oc = compare(ref, stripped, T, model, timeout_ms=TIMEOUT, seed=seed())
    except ValueError as exc:
        res["status"] = "differ"
        res["witness"] = {"malformed scheme": str(exc)}
        return res
    res.update(oc.as_dict())
    res["witness"], res["model"] = oc.witness, model.tag
    res["nontrivial"] = len(scheme) > 1
    # the unoptimised single contraction is interpreted the same way
    if oc.status == "equal":
        c = unopt[0]
        st = {"name": c.contraction_name, "names": list(c.names),
              "indices": [tuple(IR.idx_ir(s) for s in tup) for tup in c.indices],
              "contracted": [IR.idx_ir(s) for s in c.contracted],
              "target": [IR.idx_ir(s) for s in c.target]}
        pool2 = []
        for o in t.objects:
            base, ex = o.base_and_exponent
            if o.sympy.is_number or isinstance(base, Symbol):
                continue
            for _ in range(int(ex)):
                pool2.append([o.longname(), tuple(o.idx), IR.factor_ir(base)])
        op2 = {}
        ok = True
        for pos, (nm, tup) in enumerate(zip(c.names, c.indices)):
            hit = next((p for p in pool2 if p[0] == nm and p[1] == tuple(tup)), None)
            if hit is None:
                ok = False
                break
            pool2.remove(hit)
            op2[(0, pos)] = hit[2]
        if ok and st["target"] == Tir:
            ref2 = SchemeRef([st], op2, Tir)
            ref2.irs = ref.irs
            oc2 = compare(ref2, stripped, T, model, timeout_ms=TIMEOUT, seed=seed())
            res["queries"] += oc2.queries
            res["unsat"] += oc2.unsat
            res["sat"] += oc2.sat
            if oc2.status == "differ":
                res["status"] = "differ"
                res["witness"] = dict(oc2.witness or {}, scheme="unoptimized_contraction")
        else:
            res["status"] = "differ"
            res["witness"] = {"unoptimized_contraction": "operands / target do not match the term"}
    return res


from vlib.ch_c16 import ch_conditions  # noqa: E402


def main():
    global TIMEOUT
    ap = argparse.ArgumentParser()
    ap.add_argument("--tier", default="quick")
    ap.add_argument("--replay")
    a = ap.parse_args()
    if a.replay:
        import json
        p = json.load(open(a.replay))
        r = run_case(tuple(p["item"]))
        print(json.dumps({k: r.get(k) for k in ("status", "in", "target", "limits", "out", "det", "witness")},
                         indent=1, default=str))
        return 1 if (r.get("status") == "differ" or r.get("det")) else 0
    quick = a.tier == "quick"
    TIMEOUT = 20000 if quick else 120000
    run = Run("C16", a.tier, "translation_validation")
    from concurrent.futures import ThreadPoolExecutor
    ex = ThreadPoolExecutor(max_workers=1)
    fut = ex.submit(chrun.run_conditions, ch_conditions(a.tier), "", 8)
    n = 300 if quick else 5000
    base = seed() * 1000003 + 1600
    limits = [(None, None), (2, None), (4, None), (None, 2), (None, 3), (2, 2), (4, 3)]
    items = [(base + k, *limits[k % len(limits)]) for k in range(n)]
    # hyper-contractions with two hyper indices under a limit of four / five simultaneously contracted objects
    for k in range(12 if quick else 120):
        items.append((base + 40000 + k, None if k % 3 else 4, 4 + k % 2, "two_hyper", 2 + k % 2))
    results = pmap(run_case, items, limit=240 if quick else 900)
    for r in results:
        st = r.get("status")
        run.add_outcome(f"scheme/{r.get('limits', '?')}", r,
                        sample={"term": r.get("in", "")[:200], "target": r.get("target"),
                                "limits": r.get("limits"), "scheme": (r.get("out") or "")[:300],
                                "model": r.get("model"), "verdict": st}
                        if st == "equal" and r.get("nontrivial") else None,
                        distinct_key=(r.get("in"), r.get("target"), r.get("limits")),
                        nontrivial=bool(r.get("nontrivial")))
        payload = {"item": list(r["item"]) if isinstance(r.get("item"), tuple) else r.get("item"),
                   "api": "optimize_contractions", "input": r.get("in"), "target": r.get("target"),
                   "limits": r.get("limits"), "output": r.get("out"), "witness": r.get("witness")}
        if st == "differ" and not r.get("det"):
            run.violation(f"scheme:{r.get('in')}|{r.get('target')}|{r.get('limits')}",
                          f"contraction scheme does not compute the term {r.get('in', '')[:150]} (target {r.get('target')}): {(r.get('out') or '')[:200]}",
                          payload)
        for d in r.get("det", []):
            run.violation(f"scheme-det:{d[:50]}:{r.get('in')}|{r.get('target')}|{r.get('limits')}",
                          f"{d} -- term {r.get('in', '')[:150]} target {r.get('target')}", dict(payload, deterministic=d))
        if st == "error" and "HarnessError" in r.get("error", ""):
            run.harness_error(r["error"])
    for c in chrun.record(run, "e3/crosshair", fut.result()):
        run.violation(f"crosshair:{c.name}:{getattr(c, 'call', '')}",
                      f"CrossHair counterexample for {c.name}: {getattr(c, 'call', '')} ({c.replayed})",
                      {"condition": c.name, "call": getattr(c, "call", None), "message": c.message[-500:]})
    run.cov["functions_encoded"] = [
        {"function": "optimize_contractions / _optimize_contractions / _group_objects / unoptimized_contraction / Contraction (run concretely; the returned scheme is interpreted and encoded)",
         "source_sha": driver.src_hash(*FILES)},
        {"function": "Contraction._split_contracted_and_target, _group_objects (as they are, integer indices) [CrossHair]"}]
    run.cov["bounds"] = {
        "terms": "2-4 tensors (+ optional delta, symbol, exponent 2), <= 5 contracted, <= 4 targets in random requested order; 35% with indices on three or more objects (hyper-contractions, explicit targets)",
        "limits": [f"max_itmd_dim={a_}, max_n_simultaneous_contracted={b_}" for a_, b_ in limits],
        "models": "2o2v, 2o1v, 1o1v", "crosshair": "3 objects with 2 indices each over 3 (thorough 4) ids, optional target index, group limit 2 and 3",
        "shapes": n, "z3_timeout_ms": TIMEOUT}
    run.cov["rule"] = "seeded generator; non-trivial = scheme with more than one step; distinct = distinct (term, target, limits)"
    run.assumptions += [
        "numeric prefactors and plain symbols are not part of a scheme (documented) and are stripped from the reference value",
        "a documented RuntimeError 'Could not find a valid contraction scheme' under limits gives no verdict",
        "spin-labelled indices are not explored here",
    ]
    sys.exit(run.finish())


if __name__ == "__main__":
    main()
