"""
C02  Ground-state perturbation theory agrees with explicit determinant-space RSPT.

The real GroundState.energy / mp_amplitude / amplitude_residual /
expectation_value are run; each returned expression is compared by z3 with the
same quantity obtained by explicit linear algebra on occupation bit strings
(vlib/pt.py): E^(n) = <Phi|H1|psi^(n-1)>,
psi^(n) = R0(H1 psi^(n-1) - sum_k E^(k) psi^(n-k)), RE residuals, and the
lambda-series of <Psi|D|Psi>/<Psi|Psi>.  Lower-order wavefunctions are
parametrised by free amplitude unknowns (adcgen's documented prefactor / sign
convention), so every comparison is an identity in integrals, orbital energies
and lower-order amplitudes; induction over the order gives the statement.
gen_term_orders is additionally executed symbolically by CrossHair.
"""
import argparse
import sys

from vlib import driver, chrun
from vlib import ir as IR
from vlib.driver import Run, pmap, seed
from vlib.model import Model
from vlib.pt import PT
from vlib.tv import compare, perturb

FILES = ["adcgen/groundstate.py", "adcgen/operators.py", "adcgen/func.py", "adcgen/simplify.py"]
TIMEOUT = 30000


class Ref:
    def __init__(self, kind, variant, singles, order, occ=(), virt=(), npart=1):
        self.kind, self.variant, self.singles, self.order = kind, variant, singles, order
        self.occ, self.virt, self.npart = occ, virt, npart
        self._pt = {}
        self.irs = []

    def pt(self, model, val):
        p = self._pt.get(id(val))
        if p is None:
            p = PT(model, val, variant=self.variant, singles=self.singles,
                   canonical=(self.kind == "amplitude" and self.variant == "mp"))
            self._pt[id(val)] = p
        return p

    def __call__(self, model, val, tau):
        pt = self.pt(model, val)
        if self.kind == "energy":
            return pt.energy(self.order).to_ml()
        occ = tuple(tau[k] for k in self.occ)
        virt = tuple(tau[k] for k in self.virt)
        if self.kind == "amplitude":
            if self.variant == "mp":
                return pt.mp_amplitude(self.order, occ, virt).to_ml()
            return pt.residual(self.order, occ, virt).to_ml()
        if self.kind == "expec":
            return pt.expectation_value(self.order, "d", self.npart).to_ml()
        raise ValueError(self.kind)


def run_case(item):
    kind, variant, singles, order, extra, mtag = item[:6]
    maxasg = item[6] if len(item) > 6 else None     # large model: bounded number of assignments
    from adcgen import Operators, GroundState
    from adcgen.indices import get_symbols
    from sympy import S
    model = Model(*mtag)
    h = Operators(variant)
    gs = GroundState(h, first_order_singles=singles)
    res = {"item": item, "model": model.tag}
    target = []
    if kind == "energy":
        out = gs.energy(order)
        ref = Ref(kind, variant, singles, order)
        res["api"] = f"GroundState(Operators('{variant}'), first_order_singles={singles}).energy({order})"
    elif kind == "amplitude":
        space, idx = extra
        out = gs.amplitude(order, space, idx)
        syms = get_symbols(idx)
        occ = [s for s in syms if s.space == "occ"]
        virt = [s for s in syms if s.space == "virt"]
        target = syms
        ref = Ref(kind, variant, singles, order, tuple(IR.idx_ir(s) for s in occ),
                  tuple(IR.idx_ir(s) for s in virt))
        res["api"] = f"GroundState(Operators('{variant}'), first_order_singles={singles}).amplitude({order}, '{space}', '{idx}')"
    elif kind == "amplitude_again":
        # a second request for the same order and class on the same object with other (overlapping,
        # shifted or swapped) target index names
        space, idx0, idx = extra
        gs.amplitude(order, space, idx0)
        out = gs.amplitude(order, space, idx)
        syms = get_symbols(idx)
        occ = [s for s in syms if s.space == "occ"]
        virt = [s for s in syms if s.space == "virt"]
        target = syms
        ref = Ref("amplitude", variant, singles, order, tuple(IR.idx_ir(s) for s in occ),
                  tuple(IR.idx_ir(s) for s in virt))
        res["api"] = (f"gs = GroundState(Operators('{variant}'), first_order_singles={singles}); "
                      f"gs.amplitude({order}, '{space}', '{idx0}'); gs.amplitude({order}, '{space}', '{idx}')")
    elif kind == "expec":
        npart = extra
        out = gs.expectation_value(order, npart)
        ref = Ref(kind, variant, singles, order, npart=npart)
        res["api"] = f"GroundState(Operators('{variant}'), first_order_singles={singles}).expectation_value({order}, {npart})"
    else:
        raise ValueError(kind)
    from sympy import sympify
    out = sympify(out).expand()
    res["out"] = str(out)[:300]
    res["n_terms"] = len(out.args) if out.is_Add else (0 if out is S.Zero else 1)
    oc = compare(ref, out, target, model, timeout_ms=TIMEOUT, seed=seed(), max_assignments=maxasg)
    res.update(oc.as_dict())
    res["witness"] = oc.witness
    if maxasg:
        res["api"] += f" [first {maxasg} non-trivial target assignments]"
    if oc.status == "equal" and out is not S.Zero:
        oc2 = compare(ref, perturb(out, seed() + order), target, model,
                      timeout_ms=TIMEOUT, seed=seed(), replay=False, max_assignments=maxasg)
        res["guard"] = oc2.status
    return res


def ch_conditions(tier):
    mo = 4 if tier == "quick" else 5
    src = f"""
from adcgen.func import gen_term_orders
from itertools import product

def h_gen_term_orders(order: int, length: int, min_order: int) -> bool:
    '''
    pre: 0 <= order <= {mo}
    pre: 0 <= length <= 3
    pre: 0 <= min_order <= 3
    post: _
    '''
    res = gen_term_orders(order, length, min_order)
    # sound: every tuple is a composition of `order` into `length` parts >= min_order
    for c in res:
        if len(c) != length or sum(c) != order or any(x < min_order for x in c):
            return False
    # no duplicates
    if len(set(res)) != len(res):
        return False
    # complete: every composition is present
    for c in product(range(0, {mo} + 1), repeat=length):
        if sum(c) == order and all(x >= min_order for x in c) and c not in res:
            return False
    return True
"""
    return [chrun.Condition("gen_term_orders", src, timeout=120 if tier == "quick" else 900),
            chrun.Condition("gen_term_orders__reach", chrun.twin(src, "gen_term_orders"),
                            timeout=60, expect="refuted")]


def main():
    global TIMEOUT
    ap = argparse.ArgumentParser()
    ap.add_argument("--tier", default="quick")
    ap.add_argument("--replay")
    a = ap.parse_args()
    if a.replay:
        import json
        p = json.load(open(a.replay))
        it = p["item"]
        it[4] = tuple(it[4]) if isinstance(it[4], list) else it[4]
        it[5] = tuple(it[5])  # model
        r = run_case(tuple(it))
        print(json.dumps({k: r.get(k) for k in ("status", "api", "out", "witness")}, indent=1, default=str))
        return 1 if r.get("status") == "differ" else 0
    quick = a.tier == "quick"
    TIMEOUT = 30000 if quick else 180000
    run = Run("C02", a.tier, "translation_validation")
    from concurrent.futures import ThreadPoolExecutor
    ex = ThreadPoolExecutor(max_workers=1)
    fut = ex.submit(chrun.run_conditions, ch_conditions(a.tier), "", 2)
    items = []
    models = [(2, 2)] if quick else [(2, 2), (2, 3), (3, 2), (3, 3)]
    max_order = 3
    for mt in models:
        for variant in ("mp", "re"):
            for singles in (False, True):
                for n in range(0, max_order + 2 if not quick else max_order + 1):
                    if n == 4 and mt != (2, 2):
                        continue
                    items.append(("energy", variant, singles, n, None, mt))
                for n in range(1, max_order + 1):
                    for space, idx in (("ph", "ia"), ("pphh", "ijab"), ("ppphhh", "ijkabc")):
                        k = len(idx) // 2
                        if k > 2 * n or k > min(mt):
                            continue
                        if k == 1 and n == 1 and not singles:
                            continue
                        if variant == "re" and n == 3 and mt == (3, 3) and k == 3:
                            continue        # > 10 min derivation
                        items.append(("amplitude", variant, singles, n, (space, idx), mt))
                for n in range(0, max_order + 1):
                    for npart in (1, 2):
                        if variant == "re" and npart == 2 and n > 1 and quick:
                            continue
                        items.append(("expec", variant, singles, n, npart, mt))
    # third-order singles couple to the second-order triples (3o3v) and third-order doubles to the
    # second-order quadruples (4o4v, bounded number of target assignments): both vanish in 2o2v
    for variant in ("mp", "re"):
        for singles in (False, True):
            items.append(("amplitude", variant, singles, 3, ("ph", "ia"), (3, 3)))
        items.append(("amplitude", variant, False, 3, ("pphh", "ijab"), (4, 4), 3 if quick else 12))
    for variant in ("mp", "re"):
        for n_, sp_, i0_, i1_ in ((1, "pphh", "ijab", "jkbc"), (1, "pphh", "ijab", "jiab"), (2, "pphh", "ijab", "jkbc"),
                                  (2, "ph", "ia", "jb"), (2, "pphh", "jkbc", "ijab")):
            if quick and variant == "re" and n_ == 2:
                continue
            items.append(("amplitude_again", variant, False, n_, (sp_, i0_, i1_), (2, 2)))
    # fourth order expectation value: first order with two overlap factors in the norm factor (the
    # same overlap twice in one Taylor term: each factor needs its own contracted indices)
    items.append(("expec", "mp", False, 4, 1, (2, 2)))
    if not quick:
        items.append(("expec", "mp", True, 4, 1, (2, 2)))
    results = pmap(run_case, items, limit=900 if quick else 3600, workers=14)
    guards = [0, 0]
    for r in results:
        st = r.get("status")
        it = r.get("item")
        part = f"{it[0]}/{it[1]}" if isinstance(it, tuple) else "?"
        run.add_outcome(part, r, sample={"api": r.get("api"), "model": r.get("model"),
                                        "terms": r.get("n_terms"), "expr": r.get("out", "")[:160],
                                        "verdict": st} if st == "equal" and r.get("n_terms") else None,
                        distinct_key=(r.get("api"), r.get("model")),
                        nontrivial=bool(r.get("n_terms")))
        if st == "differ":
            run.violation(f"{r['api']}@{r['model']}", f"{r['api']} differs from explicit RSPT in {r['model']}",
                          {"item": list(it), "api": r["api"], "output": r["out"], "witness": r["witness"]})
        if st == "error" and "HarnessError" in r.get("error", ""):
            run.harness_error(r["error"])
        if "guard" in r:
            guards[1] += 1
            guards[0] += r["guard"] == "differ"
    # order expansion of the norm factor 1/(1 + sum_k S^(k)) for all overlap values
    from vlib import series
    from adcgen import GroundState, Operators
    gs0 = GroundState(Operators("mp"))
    for r in series.check(lambda n, mo: gs0.expand_norm_factor(n, mo), half=False,
                          thorough=not quick, timeout_ms=TIMEOUT, seed=seed()):
        api = f"GroundState.expand_norm_factor({r['order']}, min_order={r['min_order']})"
        run.add_outcome("series/norm_factor", r, sample={"api": api, "expansion": r["out"][:160], "verdict": r["status"]}
                        if r["status"] == "equal" and r["order"] >= 4 else None,
                        distinct_key=api, nontrivial=r["order"] >= r["min_order"])
        if r["status"] == "differ":
            run.violation(f"{api}", f"{api} = {r['out'][:200]} is not the lambda^{r['order']} coefficient of 1/(1+x)",
                          {"api": api, "output": r["out"], "witness": r.get("witness")})
        elif r["status"] == "harness":
            run.harness_error(f"series: solver model does not reproduce for {api}")
    run.cov["vacuity_guard"] = {"perturbed_outputs_detected": guards[0], "tried": guards[1]}
    if guards[1] and guards[0] < guards[1] // 2:
        run.harness_error(f"vacuity guard: only {guards[0]}/{guards[1]} perturbed outputs distinguishable")
    for c in chrun.record(run, "e3/gen_term_orders", fut.result()):
        run.violation(f"crosshair:{c.name}:{getattr(c, 'call', '')}",
                      f"CrossHair counterexample for {c.name}: {getattr(c, 'call', '')}",
                      {"condition": c.name, "call": getattr(c, "call", None)})
    run.cov["functions_encoded"] = [
        {"function": "GroundState.energy / psi / mp_amplitude / amplitude_residual / overlap / norm_factor / expand_norm_factor / expectation_value, Operators.mp_h0/mp_h1/re_h0/re_h1/operator (run concretely, result encoded)",
         "source_sha": driver.src_hash(*FILES)},
        {"function": "adcgen.func.gen_term_orders (CrossHair, as it is)"},
        {"function": "reference: vlib/pt.py on vlib/detref.py bit strings"}]
    run.cov["bounds"] = {
        "models": [f"{a_}o{b_}v" for a_, b_ in models],
        "orders": f"energies <= {max_order + (0 if quick else 1)} (order 4 only in 2o2v), amplitudes/residuals <= {max_order}, expectation values <= {max_order} (and the fourth-order one-particle expectation value, mp, 2o2v), operator rank 1 and 2",
        "classes": "singles, doubles, triples (where the model has them); quadruples need 4o4v and are outside",
        "z3_timeout_ms": TIMEOUT}
    run.cov["rule"] = "one case per (API call, model); non-trivial = non-zero derived expression"
    run.assumptions += [
        "norm-factor expansion: overlap contributions are commuting unknowns s_k; reference coefficients from the recursion c (1 + x) = 1",
        "lower-order wavefunctions are parametrised by free amplitude unknowns with adcgen's documented sign/prefactor convention; the claim for order n follows by induction from the identities of orders <= n",
        "MP closed-form amplitudes: canonical orbitals (f_pq = delta_pq e_p); 1/(orbital-energy form) is an unconstrained unknown shared by both sides (sound for equality)",
        "bra amplitudes (t<n>cc) are independent unknowns",
        "N-electron sector of the stated models only",
    ]
    sys.exit(run.finish())


if __name__ == "__main__":
    main()
