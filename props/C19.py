"""
C19  Results are independent of call history, hash seed and tensor-name config.

Each request is executed in fresh subprocesses under different PYTHONHASHSEEDs and
after different seeded histories of API calls (vlib/c19_worker.py); the results
are shipped as IR and compared with the result of the pristine process:
value equality for all tensor entries / target assignments by z3, and text equality
after substitute_contracted directly.  A scratch copy of the package with every
configured tensor name changed must give the same result up to that renaming
(value by z3).  Repeated psi / norm_factor requests must not share contracted
indices and repeated index requests must return the identical object (direct).
The set of hash seeds and histories is a bounded sample, not a solver variable.
"""
import argparse
import base64
import json
import os
import pickle
import shutil
import subprocess
import sys
import tempfile
from concurrent.futures import ThreadPoolExecutor

from vlib import driver
from vlib.driver import Run, seed
from vlib.model import Model
from vlib.tv import compare_ir, normalise_ir, pick_model, HarnessError
from vlib import ir as IR

FILES = ["adcgen/indices.py", "adcgen/misc.py", "adcgen/tensor_names.py", "adcgen/groundstate.py",
         "adcgen/intermediates.py"]
TIMEOUT = 60000
PY = "/verif/.venv/bin/python"
ALT_NAMES = {"eri": "W", "coulomb": "w", "fock": "h", "operator": "u", "gs_amplitude": "s",
             "gs_density": "r", "left_adc_amplitude": "L", "right_adc_amplitude": "R",
             "orb_energy": "z", "sym_orb_denom": "G"}
# a configuration in which the new name of one field is the default name of another one
CHAIN_NAMES = {"eri": "V", "coulomb": "v", "fock": "f", "operator": "d", "gs_amplitude": "t",
               "gs_density": "q", "left_adc_amplitude": "Y", "right_adc_amplitude": "X",
               "orb_energy": "e", "sym_orb_denom": "D"}
DEFAULTS = {"eri": "V", "coulomb": "v", "fock": "f", "operator": "d", "gs_amplitude": "t",
            "gs_density": "p", "left_adc_amplitude": "X", "right_adc_amplitude": "Y",
            "orb_energy": "e", "sym_orb_denom": "D"}


def run_worker(job):
    req, hashseed, hseed, hlen, pkgdir = job
    env = dict(os.environ)
    env["PYTHONHASHSEED"] = str(hashseed)
    env["ADCGEN_LOG_LEVEL"] = "ERROR"
    pp = [driver.ROOT, driver.REPO]     # the package under test comes before the .pth entry of the venv
    if pkgdir:
        pp.insert(0, pkgdir)
    env["PYTHONPATH"] = ":".join(pp)
    try:
        p = subprocess.run([PY, "-W", "ignore", os.path.join(driver.ROOT, "vlib", "c19_worker.py"), req, str(hseed), str(hlen)],
                           capture_output=True, text=True, env=env, timeout=1500)
    except subprocess.TimeoutExpired:
        return job, None, "timeout"
    for line in p.stdout.splitlines():
        if line.startswith("RESULT:"):
            return job, pickle.loads(base64.b64decode(line[7:])), None
    return job, None, (p.stderr or p.stdout)[-400:]


class _Map(list):
    prefix = ()


PKG_NAMES = {}


def rename_back(terms, pkg=None):
    from vlib.tv import rename_ir
    names = PKG_NAMES.get(pkg, ALT_NAMES)
    m = _Map((names[k], DEFAULTS[k]) for k in names if names[k] != DEFAULTS[k])
    m.prefix = (names["gs_amplitude"], names["gs_density"])
    return rename_ir(terms, m)


def main():
    global TIMEOUT
    ap = argparse.ArgumentParser()
    ap.add_argument("--tier", default="quick")
    ap.add_argument("--replay")
    a = ap.parse_args()
    quick = a.tier == "quick"
    TIMEOUT = 60000 if quick else 300000
    run = Run("C19", a.tier, "translation_validation")
    requests = ["energy2", "amp2_ph", "re_res2", "ovl_pre2", "m_phph2", "mvp_ph1", "singles1", "dens2",
                "wf_products", "rename_cfg", "m_phph0", "ev0"]
    if not quick:
        requests += ["energy3", "amp2_pphh", "m_ip_hphh1", "tm_ph2", "itmd_t2_2"]
    if a.replay:
        p = json.load(open(a.replay))
        requests = [p["request"]]
    hashseeds = [0, 1, 7, 123456] if quick else [0, 1, 2, 3, 7, 11, 42, 99, 1000, 4242, 31337, 65535, 123456, 999983, 2 ** 31, 2 ** 32 - 5]
    n_hist = 3 if quick else 11
    base = seed() * 1009 + 19
    from vlib import chrun
    from vlib.ch_c19 import ch_conditions
    ex0 = ThreadPoolExecutor(max_workers=1)
    fut = ex0.submit(chrun.run_conditions, ch_conditions(a.tier), "", 8)
    # scratch copy of the package with another tensor-name configuration
    scratch = tempfile.mkdtemp(prefix="verif-c19-")
    scratch2 = tempfile.mkdtemp(prefix="verif-c19-")
    PKG_NAMES[scratch], PKG_NAMES[scratch2] = ALT_NAMES, CHAIN_NAMES
    try:
        for sc in (scratch, scratch2):
            shutil.copytree(os.path.join(driver.REPO, "adcgen"), os.path.join(sc, "adcgen"),
                            ignore=shutil.ignore_patterns("__pycache__"))
            with open(os.path.join(sc, "adcgen", "tensor_names.json"), "w") as fh:
                json.dump(PKG_NAMES[sc], fh)
        jobs = []
        for req in requests:
            jobs.append((req, 0, 0, 0, None))                     # pristine reference
            for k, hs in enumerate(hashseeds):
                for h in range(n_hist):
                    if quick and (k + h) % 2:
                        continue
                    jobs.append((req, hs, base + 100 * k + h, 4 + 3 * h, None))
            jobs.append((req, 0, 0, 0, scratch))
            jobs.append((req, hashseeds[1], base + 5, 6, scratch))
            if req in ("rename_cfg", "mvp_ph1", "tm_ph2"):
                jobs.append((req, 0, 0, 0, scratch2))
        with ThreadPoolExecutor(max_workers=15) as ex:
            outs = list(ex.map(run_worker, jobs))
    finally:
        shutil.rmtree(scratch, ignore_errors=True)
        shutil.rmtree(scratch2, ignore_errors=True)
    refs = {}
    for job, res, err in outs:
        if job[1:] == (0, 0, 0, None) and res is not None:
            refs[job[0]] = res
    for job, res, err in outs:
        req, hs, hseed_, hlen, pkg = job
        part = f"{'config' if pkg else 'history'}/{req}"
        if res is None:
            run.add_outcome(part, {"status": "error", "error": f"worker failed: {err}"}, sample=None)
            continue
        ref = refs.get(req)
        if ref is None:
            run.add_outcome(part, {"status": "error", "error": "no reference result"}, sample=None)
            continue
        if job[1:] == (0, 0, 0, None):
            continue
        irA = normalise_ir(ref["ir"])
        irB = normalise_ir(rename_back(res["ir"], pkg) if pkg else res["ir"])
        T = {(s[0], s[1], s[2], 0) for s in ref["target"]}
        model = pick_model([irA, irB], T, [Model(2, 2), Model(2, 1), Model(1, 1)], budget=400000)
        try:
            oc = compare_ir(irA, irB, T, model, timeout_ms=TIMEOUT, seed=seed())
        except HarnessError as exc:
            run.harness_error(str(exc))
            continue
        r = oc.as_dict()
        desc = {"request": req, "PYTHONHASHSEED": hs, "history_seed": hseed_, "history_len": hlen,
                "history": res.get("history"), "tensor_names": ("alternative" if PKG_NAMES.get(pkg) is ALT_NAMES else "chained") if pkg else "default",
                "terms": res.get("n_terms"), "model": model.tag, "verdict": oc.status}
        run.add_outcome(part, r, sample=desc if oc.status == "equal" else None,
                        distinct_key=(req, hs, hseed_, desc["tensor_names"]), nontrivial=bool(res.get("n_terms")))
        payload = dict(desc, witness=oc.witness)
        if oc.status == "differ":
            run.violation(f"value:{req}:{hs}:{hseed_}:{bool(pkg)}" + (":chained" if desc["tensor_names"] == "chained" else ""),
                          f"request {req} has another value under PYTHONHASHSEED={hs}, history seed {hseed_}"
                          + (f" with the {desc['tensor_names']} tensor names" if pkg else ""), payload)
        if not pkg and res["text"] != ref["text"]:
            run.violation(f"text:{req}:{hs}:{hseed_}",
                          f"request {req}: text after substitute_contracted differs under PYTHONHASHSEED={hs}, history seed {hseed_}",
                          dict(payload, text=res["text"][:600], reference_text=ref["text"][:600]))
        if res.get("shared"):
            run.violation(f"shared:{req}:{hs}:{hseed_}",
                          f"repeated psi / norm_factor / intermediate expansion requests share contracted indices {res['shared'][:2]}", payload)
        if not res.get("identical"):
            run.violation(f"identity:{req}:{hs}:{hseed_}", "repeated index request returned another object", payload)
        if any(isinstance(h, str) for h in res.get("history") or []):
            run.cov.setdefault("history_calls_raised", []).append([h for h in res["history"] if isinstance(h, str)][:3])
    for c in chrun.record(run, "e3/registry", fut.result()):
        run.violation(f"crosshair:{c.name}:{getattr(c, 'call', '')}",
                      f"CrossHair counterexample for {c.name}: {getattr(c, 'call', '')} ({c.replayed})",
                      {"condition": c.name, "call": getattr(c, "call", None), "message": c.message[-500:]})
    run.cov["functions_encoded"] = [
        {"function": "Indices.get_generic_indices / get_indices / _gen_generic_idx (as they are; instance built with object.__new__, one (space, spin) cell, _new_symbol stubbed) [CrossHair: one inductive step from an arbitrary pre-state satisfying the registry invariant]"},
        {"function": "whole derivation API executed in subprocesses (Indices registry, GroundState.psi / norm_factor, substitute_contracted, tensor_names); results encoded and compared by z3",
         "source_sha": driver.src_hash(*FILES)}]
    run.cov["bounds"] = {
        "requests": requests, "hash seeds": hashseeds, "histories per seed": n_hist,
        "history": "4-34 seeded calls from a menu of 16 API calls (energies, wavefunctions, generic / named index requests, precursor states, intermediate expansion, norm factors, simplify, matrix blocks, substitute_contracted, and the requests' own methods with the same arguments on objects with another partitioning / variant / singles setting)",
        "tensor names": ALT_NAMES, "models": "<= 2o2v", "z3_timeout_ms": TIMEOUT,
        "crosshair": "registry cell with a two-letter alphabet, generation counter 3..5, arbitrary status (free / pending / handed out) of the six lowest generic names, requests of 1-2 (thorough 3) generic indices"}
    run.cov["rule"] = "one case per (request, hash seed, history, configuration); bounded sample of seeds and histories"
    run.assumptions += [
        "hash seeds and API histories are a bounded sample (not solver variables); only the value conjunct per pair of results is a solver verdict",
        "text equality after substitute_contracted, index-set disjointness and object identity are direct comparisons",
        "indices are identified across processes by (name, space, spin)",
    ]
    sys.exit(run.finish())


if __name__ == "__main__":
    main()
