"""
C07  simplify preserves the value and merges alpha-equivalent terms.

E1 translation validation: the real `adcgen.simplify.simplify` is run on
generated sums; input and output are encoded over a finite orbital model with
symbolic tensor entries; z3 decides value equality for all entries and all
target assignments.  Deterministic side conditions (no remaining quantifier once
the input is fixed): len(out) <= len(in), same target indices / assumptions,
alpha-equivalent pairs collapse to <= 1 term.
"""
import argparse
import random
import sys

from sympy import Add, S, Rational

from vlib import driver
from vlib.driver import Run, pmap, seed
from vlib.model import Model
from vlib import ir as IR
from vlib.tv import compare, pick_model, rename_contracted, perturb, HarnessError
from vlib.gen import TermGen, POOL, consistent_bks

FILES = ["adcgen/simplify.py", "adcgen/expr_container.py", "adcgen/indices.py"]
MODELS = [Model(3, 3), Model(2, 2), Model(2, 1), Model(1, 1)]


def _targets(rng, spaces, nmax, spin=False):
    from adcgen.indices import get_symbols
    n = rng.randint(0, nmax)
    out, seen = [], set()
    for _ in range(n):
        sp = rng.choice(spaces)
        nm = rng.choice(POOL[sp][:4])
        sn = rng.choice("ab") if spin else ""
        if (nm, sn) in seen:
            continue
        seen.add((nm, sn))
        out.append(get_symbols(nm, sn)[0] if sn else get_symbols(nm)[0])
    return out


def _ring_term(rng):
    """Identical tensors repeated in a cycle: several contracted indices of one space share
    their position fingerprint although they are not interchangeable (which of them sit on
    a common tensor matters), so the search over candidate renamings must branch."""
    from adcgen.indices import get_symbols
    from adcgen.sympy_objects import NonSymmetricTensor, AntiSymmetricTensor, Amplitude
    which = rng.choice(["cycle", "cycle", "yyww", "two"])
    if which == "cycle":
        n = rng.randint(3, 5)
        sp = rng.choice(["ijklm", "abcde"])
        idx = get_symbols(sp[:n])
        order = list(range(n))
        rng.shuffle(order)
        t = S.One
        for q in range(n):
            t *= NonSymmetricTensor("c", (idx[order[q]], idx[order[(q + 1) % n]]))
        return rng.choice([1, 2, -1]) * t
    if which == "two":
        i, j, k = get_symbols("ijk")
        a, b, c = get_symbols("abc")
        return (NonSymmetricTensor("c", (i, j)) * NonSymmetricTensor("c", (j, k)) * NonSymmetricTensor("c", (k, i))
                * AntiSymmetricTensor("f", (a,), (b,)) * AntiSymmetricTensor("f", (b,), (c,))
                * AntiSymmetricTensor("f", (c,), (a,)))
    i, j, k, l = get_symbols("ijkl")
    a, b, c, d = get_symbols("abcd")
    bks = rng.choice([0, 1])
    return (Amplitude("Y", (a, b), (i, j)) * Amplitude("Y", (c, d), (k, l))
            * AntiSymmetricTensor("d", (i, k), (a, c), bks) * AntiSymmetricTensor("d", (j, l), (b, d), bks))


def build_case(item):
    """Deterministically builds (expr kwargs, list of sympy terms, meta)."""
    kind, sd = item
    rng = random.Random(sd)
    spin = (kind == "spin")
    spaces = "ovg" if kind == "general" else "ov"
    names = None
    if kind == "denom":
        names = ["V", "f", "t1", "t2", "D", "Y", "d"]
    g = TermGen(rng, spaces=spaces, spin=spin, n_tensors=(2, 3),
                max_contracted=4 if kind == "general" else 5,
                exponents=0.15 if kind == "expo" else 0.0,
                deltas=(1, 2) if kind == "delta" else (0, 0),
                names=names, exclude=("v",) if kind == "denom" else ("D", "v"))
    explicit = rng.random() < 0.5 or kind in ("repeat",)
    T = _targets(rng, spaces, 3 if kind == "general" else 4, spin)
    terms = []
    meta = {"kind": kind, "seed": sd, "pairs": []}
    n_seed = rng.randint(1, 3)
    from adcgen import Expr
    if kind == "ring":
        T, explicit = [], False
    for _ in range(n_seed):
        if kind == "ring":
            t0 = _ring_term(rng)
        else:
            t0 = g.term_with_target(T, repeat_target=0.3 if kind == "repeat" else 0.0)
        terms.append(t0)
        tobj = Expr(t0, target_idx=T if explicit else None).terms[0]
        contracted = [s for s in tobj.contracted]
        if not explicit and set(tobj.target) != set(T):
            # Einstein convention disagrees with the intended targets -> explicit
            explicit = True
            contracted = [s for s in Expr(t0, target_idx=T).terms[0].contracted]
        r = rng.random()
        if contracted and (r < 0.75 or kind == "ring"):
            t1, _ = rename_contracted(t0, contracted, rng, POOL, keep=T)
            coef = rng.choice([1, -1, 2, Rational(1, 2), Rational(-3, 4)])
            terms.append(coef * t1)
            meta["pairs"].append((len(terms) - 2, len(terms) - 1))
        if r > 0.5:
            # near miss: exchange two indices of equal space/spin sitting anywhere
            idx = sorted(t0.atoms(type(T[0])) if T else t0.atoms(),
                         key=lambda s: str(s)) if False else None
            from adcgen.indices import Index
            allidx = sorted(t0.atoms(Index), key=lambda s: (s.name, s.spin))
            cands = [(x, y) for n_, x in enumerate(allidx) for y in allidx[n_ + 1:]
                     if x.space == y.space and x.spin == y.spin
                     and not (x in T and y in T and not explicit)]
            if cands:
                x, y = rng.choice(cands)
                if not ((x in T) != (y in T)):   # keep the target set intact
                    t2 = t0.xreplace({x: y, y: x})
                    if t2 is not S.Zero:
                        terms.append(rng.choice([1, -1, 2]) * t2)
    meta["explicit"] = explicit
    return terms, T, explicit, meta


def run_case(item):
    from adcgen import Expr, simplify
    try:
        terms, T, explicit, meta = build_case(item)
    except RuntimeError:
        return {"status": "skipped", "item": item}
    expr_in = Add(*terms)
    if expr_in is S.Zero or not consistent_bks(expr_in):
        return {"status": "skipped", "item": item}
    rng2 = random.Random(hash(str(item)) % (2 ** 31) if False else (item[1] * 16807 + 5) % (2 ** 31))
    if not T and rng2.random() < 0.7:
        # scalar expressions: a term without any index (a number, a number times a symbol) next to
        # the contractions, e.g. the 1 of a norm 1 - 1/4 t t*
        from sympy import Symbol
        expr_in = expr_in + rng2.choice([1, Rational(3, 2), -2, 2 * Symbol("x"), Symbol("x") * Symbol("y") / 2])
    kw = {"target_idx": T} if explicit else {}
    e = Expr(expr_in, **kw)
    n_in = len(e) if e.sympy is not S.Zero else 0
    tgt_before, ass_before = e.provided_target_idx, dict(e.assumptions)
    out = simplify(e.copy())
    res = {"item": item, "in": str(e), "out": str(out), "n_in": n_in,
           "n_out": len(out) if out.sympy is not S.Zero else 0, "det": []}
    # deterministic conjuncts
    if res["n_out"] > n_in:
        res["det"].append(f"more terms after simplify: {n_in} -> {res['n_out']}")
    if out.provided_target_idx != tgt_before:
        res["det"].append("target indices changed")
    if {k: v for k, v in out.assumptions.items()} != ass_before:
        res["det"].append("assumptions changed")
    # alpha-equivalent pair alone must collapse
    for (a, b) in meta["pairs"]:
        pe = Expr(terms[a] + terms[b], **kw)
        if pe.sympy is S.Zero or len(pe) == 1:
            continue
        po = simplify(pe.copy())
        if po.sympy is not S.Zero and len(po) > 1:
            res["det"].append(f"alpha-equivalent pair not merged: {pe} -> {po}")
    # solver part
    irs = [IR.expr_ir(e.sympy), IR.expr_ir(out.sympy)]
    Tir = {IR.idx_ir(s) for s in T}
    if not explicit:
        from vlib.tv import default_target
        Tir = default_target(irs[:1])
    Tobj = [s for s in e.sympy.atoms(type(T[0]) if T else object) if False] or None
    from adcgen.indices import Index
    allobj = {IR.idx_ir(s): s for s in (e.sympy.atoms(Index) | out.sympy.atoms(Index))}
    target_objs = [allobj[k] for k in Tir if k in allobj]
    spinm = meta["kind"] == "spin"
    cands = [Model(2, 2, spin=True), Model(1, 1, spin=True)] if spinm else MODELS
    model = pick_model(irs, Tir, cands, budget=200000)
    oc = compare(e.sympy, out.sympy, target_objs, model, timeout_ms=TIMEOUT, seed=seed())
    res.update(oc.as_dict())
    res["model"] = model.tag
    res["witness"] = oc.witness
    # vacuity guard: doubling one output term must be detectable
    if oc.status == "equal" and out.sympy is not S.Zero and (item[1] % 4 == 0):
        pb = perturb(out.sympy, item[1])
        oc2 = compare(e.sympy, pb, target_objs, model, timeout_ms=TIMEOUT,
                      seed=seed(), replay=False)
        res["guard"] = oc2.status
    return res


TIMEOUT = 20000


def main():
    ap = argparse.ArgumentParser()
    ap.add_argument("--tier", default="quick")
    ap.add_argument("--replay")
    a = ap.parse_args()
    global TIMEOUT
    if a.replay:
        import json
        p = json.load(open(a.replay))
        r = run_case(tuple(p["item"]))
        print(json.dumps({k: r.get(k) for k in ("status", "in", "out", "det", "witness")},
                         indent=1, default=str))
        return 1 if (r.get("status") == "differ" or r.get("det")) else 0
    run = Run("C07", a.tier, "translation_validation")
    n = 640 if a.tier == "quick" else 6000
    TIMEOUT = 20000 if a.tier == "quick" else 120000
    kinds = ["plain", "delta", "general", "expo", "repeat", "spin", "denom", "plain", "ring"]
    base = seed() * 1000003
    items = [(kinds[k % len(kinds)], base + k) for k in range(n)]
    results = pmap(run_case, items, limit=120 if a.tier == "quick" else 600)
    guards = [0, 0]
    for r in results:
        st = r.get("status")
        kind = r["item"][0] if "item" in r and isinstance(r["item"], tuple) else "?"
        sample = {"in": r.get("in", "")[:300], "out": r.get("out", "")[:300],
                  "model": r.get("model"), "verdict": st}
        run.add_outcome(f"simplify/{kind}", r, sample=sample if st == "equal" else None,
                        distinct_key=r.get("in"),
                        nontrivial=r.get("n_in", 0) >= 2)
        if st == "differ":
            run.violation(f"simplify:{r['in']}",
                          f"simplify changed the value: {r['in'][:200]} -> {r['out'][:200]}",
                          {"item": list(r["item"]), "api": "adcgen.simplify(Expr)",
                           "input": r["in"], "output": r["out"], "witness": r["witness"]})
        for d in r.get("det", []):
            run.violation(f"simplify-det:{d[:80]}:{r['in']}", d,
                          {"item": list(r["item"]), "api": "adcgen.simplify(Expr)",
                           "input": r["in"], "output": r["out"], "deterministic": d})
        if st == "error" and "HarnessError" in r.get("error", ""):
            run.harness_error(r["error"])
        if "guard" in r:
            guards[1] += 1
            guards[0] += r["guard"] == "differ"
    run.cov["vacuity_guard"] = {"perturbed_outputs_detected": guards[0], "tried": guards[1]}
    if guards[1] and not guards[0]:
        run.harness_error("vacuity guard: no perturbed output was distinguishable")
    run.cov["functions_encoded"] = [
        {"function": "adcgen.simplify.simplify (run concretely, input and actual output encoded)",
         "source_sha": driver.src_hash(*FILES)}]
    run.cov["bounds"] = {
        "models": "3o3v when the estimated encoding fits 2e5 leaf assignments, else 2o2v/2o1v/1o1v; spin cases 2o2v x {a,b}",
        "terms": "1-3 seed terms, each optionally with an alpha-renamed copy and a near miss: <= 9 terms, 2-3 tensors per term, <= 5 contracted, <= 4 target indices",
        "shapes": n, "z3_timeout_ms": TIMEOUT}
    run.cov["rule"] = ("seeded bounded generator (vlib/gen.py); a case is non-trivial if the input has >= 2 terms; "
                       "distinct = distinct printed inputs")
    run.assumptions += [
        "expression shapes are enumerated by a seeded generator, not by the solver",
        "sympy construction/printing and the IR reader are trusted; any sat model is replayed on the sympy trees with exact arithmetic",
        "len/targets/assumptions/merge conjuncts are direct comparisons on the single concrete output",
        "merge conjunct: the two alpha-equivalent terms differ by a rational factor (with an irrational ratio, e.g. sqrt(2) X_ij Y_j - X_ik Y_k, the sum is not a single term of an expanded sympy expression; the library leaves two terms, value unchanged - outside the merge conjunct)",
    ]
    sys.exit(run.finish())


if __name__ == "__main__":
    main()
