"""
C03  Secular matrix equals <I|H - E0|J> over explicitly built intermediate states.

The real SecularMatrix.isr_matrix_block / precursor_matrix_block /
mvp_block_order are run; each returned expression is compared by z3 with the
same-order coefficient of the matrix element computed between intermediate
states that are constructed explicitly on occupation bit strings
(vlib/isr.py: excitation operators on the normalised perturbed ground state,
projection on the ground state and on lower classes, S^(-1/2) from X X S = 1).
The ground-state corrections are parametrised by free amplitude unknowns, the
Fock matrix and the integrals are free: every comparison is a polynomial
identity.  The transpose relation is checked between two real outputs (real
orbitals).  block_order / max_ptorder_spaces run under CrossHair against the
ADC(n) truncation table.
"""
import argparse
import sys
from fractions import Fraction

from vlib import driver, chrun, srcgen
from vlib import ir as IR
from vlib.driver import Run, pmap, seed
from vlib.model import Model
from vlib.poly import SP
from vlib.pt import PT
from vlib.isr import ISR, norm_pref_sq
from vlib.tv import compare, perturb

FILES = ["adcgen/secular_matrix.py", "adcgen/intermediate_states.py",
         "adcgen/groundstate.py", "adcgen/func.py"]
TIMEOUT = 60000
OCC, VIRT = "ijklmn", "abcdef"


def idx_for(space, used_o=0, used_v=0):
    nh, np_ = space.count("h"), space.count("p")
    return OCC[used_o:used_o + nh] + VIRT[used_v:used_v + np_]


class MRef:
    irs = []

    def __init__(self, kind, variant, singles, order, sp1, o1, v1, sp2, o2=(), v2=(),
                 subtract_gs=True, mvp=False):
        self.__dict__.update(locals())
        self._isr = {}

    def isr(self, model, val):
        x = self._isr.get(id(val))
        if x is None:
            pt = PT(model, val, variant="mp", singles=self.singles)
            x = ISR(pt, self.variant, self.order)
            self._isr[id(val)] = x
        return x

    def __call__(self, model, val, tau):
        isr = self.isr(model, val)
        o1 = tuple(tau[k] for k in self.o1)
        v1 = tuple(tau[k] for k in self.v1)
        if not self.mvp:
            o2 = tuple(tau[k] for k in self.o2)
            v2 = tuple(tau[k] for k in self.v2)
            return isr.matrix(self.kind, self.order, self.sp1, o1, v1, self.sp2, o2, v2,
                              self.subtract_gs).to_ml()
        # r_I = p_I * sum_{J restricted} M_IJ * Y_J / p_J ,  p = 1/sqrt(n_o! n_v!)
        tot = SP()
        for (J_o, J_v) in isr.tuples(self.sp2):
            m = isr.matrix(self.kind, self.order, self.sp1, o1, v1, self.sp2, J_o, J_v,
                           self.subtract_gs)
            if m.is_zero():
                continue
            y = SP.from_ml(val.tensor("Y", "M", tuple(J_v), tuple(J_o), 0))
            tot = tot + m * y
        # ratio of the prefactors: sqrt(nJ / nI) as rational * sqrt(squarefree)
        nI, nJ = norm_pref_sq(self.sp1), norm_pref_sq(self.sp2)
        from sympy import sqrt, Rational
        from vlib.ir import _number, _norm_roots
        frac, roots = _number(sqrt(Rational(nJ, nI)))
        frac, roots = _norm_roots(frac, roots)
        out = tot * frac
        for p_, _ in roots:
            out = out * SP.from_ml(val.root(p_))
        return out.to_ml()


def run_case(item):
    kind, variant, singles, order, sp1, sp2, subtract_gs, mtag = item
    from adcgen import Operators, GroundState, IntermediateStates, SecularMatrix
    from adcgen.indices import get_symbols
    from sympy import S, sympify
    model = Model(*mtag)
    gs = GroundState(Operators("mp"), first_order_singles=singles)
    isr = IntermediateStates(gs, variant)
    m = SecularMatrix(isr)
    i1 = idx_for(sp1)
    i2 = idx_for(sp2, sp1.count("h"), sp1.count("p")) if isinstance(sp2, str) else ""
    s1, s2 = get_symbols(i1), get_symbols(i2)
    o1 = tuple(IR.idx_ir(s) for s in s1 if s.space == "occ")
    v1 = tuple(IR.idx_ir(s) for s in s1 if s.space == "virt")
    o2 = tuple(IR.idx_ir(s) for s in s2 if s.space == "occ")
    v2 = tuple(IR.idx_ir(s) for s in s2 if s.space == "virt")
    res = {"item": item, "model": model.tag}
    pre = f"SecularMatrix(IntermediateStates(GroundState(Operators('mp'), {singles}), '{variant}'))"
    val_opts = {}
    spec_extra = None
    if kind in ("isr", "pre"):
        fn = m.isr_matrix_block if kind == "isr" else m.precursor_matrix_block
        out = fn(order, f"{sp1},{sp2}", f"{i1},{i2}", subtract_gs)
        A = MRef(kind, variant, singles, order, sp1, o1, v1, sp2, o2, v2, subtract_gs)
        target = s1 + s2
        res["api"] = f"{pre}.{fn.__name__}({order}, '{sp1},{sp2}', '{i1},{i2}', {subtract_gs})"
    elif kind == "mvp":
        out = m.mvp_block_order(order, sp1, f"{sp1},{sp2}", i1, subtract_gs)
        A = MRef("isr", variant, singles, order, sp1, o1, v1, sp2, subtract_gs=subtract_gs, mvp=True)
        target = s1
        res["api"] = f"{pre}.mvp_block_order({order}, '{sp1}', '{sp1},{sp2}', '{i1}', {subtract_gs})"
    elif kind == "mvp_sum":
        # SecularMatrix.mvp only sums block contributions: compared with the sum, over the
        # harness' own ADC(n) truncation table (class mu present if mu <= n // 2, block
        # (mu, nu) through order n - (mu + nu)), of the individually verified contributions
        n_adc = sp2
        SPL = {"pp": ["ph", "pphh"], "ip": ["h", "phh"], "ea": ["p", "pph"],
               "dip": ["hh", "phhh"], "dea": ["pp", "ppph"]}[variant]
        mu = SPL.index(sp1)
        out = m.mvp(n_adc, sp1, i1, order, subtract_gs)
        A = S.Zero
        for nu, sr in enumerate(SPL):
            if mu > n_adc // 2 or nu > n_adc // 2 or order > n_adc - (mu + nu):
                continue
            A += m.mvp_block_order(order, sp1, f"{sp1},{sr}", i1, subtract_gs)
        A = sympify(A).expand()
        target = s1
        res["api"] = f"{pre}.mvp({n_adc}, '{sp1}', '{i1}', order={order}, {subtract_gs}) vs the sum of its blocks"
    elif kind == "transpose":
        out = m.isr_matrix_block(order, f"{sp1},{sp2}", f"{i1},{i2}", subtract_gs)
        A = sympify(m.isr_matrix_block(order, f"{sp2},{sp1}", f"{i2},{i1}", subtract_gs)).expand()
        target = s1 + s2
        # real orbital basis: bra amplitudes = ket amplitudes, f and V bra-ket symmetric
        val_opts = {"alias": {f"t{n}cc": f"t{n}" for n in range(1, 6)}}
        spec_extra = {("V", 2, 2): ("A", 1), ("f", 1, 1): ("A", 1)}
        res["api"] = f"{pre}.isr_matrix_block({order}, '{sp1},{sp2}', ...) vs transposed block (real orbitals)"
    else:
        raise ValueError(kind)
    out = sympify(out).expand()
    res["out"] = str(out)[:300]
    res["n_terms"] = len(out.args) if out.is_Add else (0 if out is S.Zero else 1)
    oc = compare(A, out, target, model, timeout_ms=TIMEOUT, seed=seed(), val_opts=val_opts,
                 spec_extra=spec_extra)
    res.update(oc.as_dict())
    res["witness"] = oc.witness
    if oc.status == "equal" and out is not S.Zero and kind != "transpose":
        oc2 = compare(A, perturb(out, seed() + order + len(sp1)), target, model,
                      timeout_ms=TIMEOUT, seed=seed(), replay=False, val_opts=val_opts,
                      spec_extra=spec_extra)
        res["guard"] = oc2.status
    return res


def ch_conditions(tier):
    mo = 4 if tier == "quick" else 6
    bo = srcgen.regenerate("adcgen/secular_matrix.py", "SecularMatrix.block_order",
                           new_name="k_block_order", drop_imports=False, is_to_eq=False)
    mp = srcgen.regenerate("adcgen/secular_matrix.py", "SecularMatrix.max_ptorder_spaces",
                           new_name="k_max_ptorder_spaces", is_to_eq=False)
    src = f"""
from types import SimpleNamespace
{mp}

{bo}

class _SM:
    def __init__(self, min_space):
        self.isr = SimpleNamespace(min_space=[min_space])
    max_ptorder_spaces = k_max_ptorder_spaces
    block_order = k_block_order

def h_block_order(order: int, v: int) -> bool:
    '''
    pre: 0 <= order <= {mo}
    pre: 0 <= v < 5
    post: _
    '''
    min_space = ["ph", "h", "p", "hh", "pp"][v]
    sm = _SM(min_space)
    spaces = sm.max_ptorder_spaces(order)
    blocks = sm.block_order(order)
    # ADC(n) truncation table: class mu (0 = lowest) is present iff 2 mu <= n and
    # treated through order n - mu; block (mu, nu) is expanded through n - mu - nu
    names = [min_space]
    for _ in range(order // 2):
        names.append("p" + names[-1] + "h")
    if sorted(spaces) != sorted(names):
        return False
    for mu, s1 in enumerate(names):
        if spaces[s1] != order - mu:
            return False
        for nu, s2 in enumerate(names):
            if blocks.get((s1, s2)) != order - mu - nu:
                return False
    return len(blocks) == len(names) ** 2
"""
    return [chrun.Condition("block_order", src, timeout=120 if tier == "quick" else 900),
            chrun.Condition("block_order__reach", chrun.twin(src, "block_order"),
                            timeout=60, expect="refuted")]


def main():
    global TIMEOUT
    ap = argparse.ArgumentParser()
    ap.add_argument("--tier", default="quick")
    ap.add_argument("--replay")
    a = ap.parse_args()
    if a.replay:
        import json
        p = json.load(open(a.replay))
        it = p["item"]
        it[-1] = tuple(it[-1])
        r = run_case(tuple(it))
        print(json.dumps({k: r.get(k) for k in ("status", "api", "out", "witness")}, indent=1, default=str))
        return 1 if r.get("status") == "differ" else 0
    quick = a.tier == "quick"
    TIMEOUT = 60000 if quick else 300000
    run = Run("C03", a.tier, "translation_validation")
    from concurrent.futures import ThreadPoolExecutor
    ex = ThreadPoolExecutor(max_workers=1)
    fut = ex.submit(chrun.run_conditions, ch_conditions(a.tier), "", 2)
    SP2 = {"pp": ["ph", "pphh"], "ip": ["h", "phh"], "ea": ["p", "pph"],
           "dip": ["hh", "phhh"], "dea": ["pp", "ppph"]}
    items = []
    adc = 3            # blocks and orders of ADC(3); quick restricts the expensive ones
    for variant, (lo, hi) in SP2.items():
        for sp1 in (lo, hi):
            for sp2 in (lo, hi):
                mu, nu = (sp1 == hi), (sp2 == hi)
                max_o = adc - mu - nu
                for n in range(max_o + 1):
                    big = len(sp1) + len(sp2)
                    if quick:
                        if n == 3:
                            continue
                        if big >= 8:
                            continue
                        if variant in ("dip", "dea") and big >= 6 and n >= 2:
                            continue
                    nh = max(sp1.count("h"), sp2.count("h"), 2)
                    np_ = max(sp1.count("p"), sp2.count("p"), 2)
                    mts = [(nh, np_)]
                    if not quick and big <= 4 and n <= 2:
                        mts.append((3, 3))
                    if not quick and big <= 6 and n <= 2:
                        mts.append((max(nh, 2), max(np_, 3)))
                    for mt in sorted(set(mts)):
                        for sg in ((True,) if quick and n > 1 else (True, False)):
                            items.append(("isr", variant, False, n, sp1, sp2, sg, mt))
                        if n <= 2 and mt == (nh, np_):
                            items.append(("mvp", variant, False, n, sp1, sp2, True, mt))
                        if n <= 2 and mt == (nh, np_) and (not quick or big <= 4):
                            items.append(("pre", variant, False, n, sp1, sp2, True, mt))
                        if len(sp1) <= len(sp2) and mt == (nh, np_) and n <= 2:
                            items.append(("transpose", variant, False, n, sp1, sp2, True, mt))
                        if not quick and (n <= 2 or big <= 4) and mt == (nh, np_):
                            items.append(("isr", variant, True, n, sp1, sp2, True, mt))
    # SecularMatrix.mvp (sums blocks): (kind, variant, singles, order, space, adc_order, subtract_gs, model)
    for variant, (lo, hi) in SP2.items():
        nh, np_ = max(hi.count("h"), 2), max(hi.count("p"), 2)
        for n_adc, o, sp in ((2, 0, lo), (2, 1, lo), (1, 1, lo), (2, 0, hi)) + \
                (() if quick else ((2, 2, lo), (3, 1, lo), (3, 1, hi))):
            if quick and variant in ("dip", "dea") and sp == hi:
                continue
            items.append(("mvp_sum", variant, False, o, sp, n_adc, True, (nh, np_)))
        # the option subtract_gs=False (matrix of H instead of H - E0): lowest diagonal block
        # against the explicit construction, and the forwarding of the option through mvp
        nl, pl = max(lo.count("h"), 2), max(lo.count("p"), 2)
        for o in (0, 2) if quick else (0, 1, 2):
            items.append(("isr", variant, False, o, lo, lo, False, (nl, pl)))
            items.append(("mvp_sum", variant, False, o, lo, 2, False, (nh, np_)))
        items.append(("mvp", variant, False, 0, lo, lo, False, (nl, pl)))
    # heavier cases first
    items.sort(key=lambda it: -(it[3] * 10 + len(it[4]) + (len(it[5]) if isinstance(it[5], str) else 6)))
    results = pmap(run_case, items, limit=1500 if quick else 14000, workers=15)
    guards = [0, 0]
    for r in results:
        st = r.get("status")
        it = r.get("item")
        part = f"{it[0]}/{it[1]}" if isinstance(it, tuple) else "?"
        nontriv = bool(r.get("n_terms"))
        run.add_outcome(part, r, sample={"api": r.get("api"), "model": r.get("model"),
                                        "terms": r.get("n_terms"), "verdict": st}
                        if st == "equal" and nontriv else None,
                        distinct_key=(r.get("api"), r.get("model")), nontrivial=nontriv)
        if st == "differ":
            run.violation(f"{r['api']}@{r['model']}",
                          f"{r['api']} differs from the explicit construction in {r['model']}",
                          {"item": list(it), "api": r["api"], "output": r["out"], "witness": r["witness"]})
        if st == "error" and "HarnessError" in r.get("error", ""):
            run.harness_error(r["error"])
        if "guard" in r:
            guards[1] += 1
            guards[0] += r["guard"] == "differ"
    run.cov["vacuity_guard"] = {"perturbed_outputs_detected": guards[0], "tried": guards[1]}
    if guards[1] and guards[0] < guards[1] // 2:
        run.harness_error(f"vacuity guard: only {guards[0]}/{guards[1]} perturbed outputs distinguishable")
    for c in chrun.record(run, "e3/block_order", fut.result()):
        run.violation(f"crosshair:{c.name}:{getattr(c, 'call', '')}",
                      f"CrossHair counterexample for {c.name}: {getattr(c, 'call', '')}",
                      {"condition": c.name, "call": getattr(c, "call", None)})
    run.cov["functions_encoded"] = [
        {"function": "SecularMatrix.isr_matrix_block / precursor_matrix_block / mvp_block_order / hamiltonian, IntermediateStates.precursor / intermediate_state / s_root / overlap_precursor (run concretely, result encoded)",
         "source_sha": driver.src_hash(*FILES)},
        {"function": "SecularMatrix.block_order / max_ptorder_spaces (regenerated from source, CrossHair)"},
        {"function": "reference: vlib/isr.py + vlib/pt.py on vlib/detref.py bit strings"}]
    run.cov["bounds"] = {
        "variants": list(SP2), "classes": "two lowest classes per variant",
        "orders": "blocks and orders of ADC(3)" + (" without order 3 and without the second-class diagonal blocks of pp (8 indices)" if quick else ""),
        "models": "n_o, n_v = max(2, number of h / p indices)" + ("" if quick else "; additionally 3o3v / n_v=3 for small blocks"),
        "partitioning": "mp", "z3_timeout_ms": TIMEOUT}
    run.cov["rule"] = "one case per (API call, model); non-trivial = non-empty derived expression"
    run.assumptions += [
        "ground-state corrections are free amplitude unknowns in adcgen's convention (their RSPT values: C02/C12); Fock matrix and integrals free (no canonical-orbital assumption)",
        "bra amplitudes independent except for the transpose relation (real orbitals: t<n>cc = t<n>, f and V bra-ket symmetric)",
        "MVP normalisation: r_I = p_I sum_{J restricted} M_IJ Y_J / p_J with p = 1/sqrt(n_o! n_v!) (hidden-factor convention of the docstring)",
    ]
    sys.exit(run.finish())


if __name__ == "__main__":
    main()
