"""
C20  Unitary-tensor simplification preserves the value for orthogonal tensors.

The real simplify_unitary is run on generated products; the named tensor is
valued as an orthogonal matrix through a complete rational parametrisation
(n = 2: rotation (w, z); n = 3: Euler-Rodrigues quaternion; both determinant
sheets), homogenised so that no side constraint is needed: with
N(q) N(q)^T = |q|^4 1 and U = N(q)/|q|^2 a term with k factors U is multiplied by
(|q|^2)^(K-k).  z3 decides value equality for all quaternion parameters, all
remainder tensor entries and all target assignments.
"""
import argparse
import random
import sys
from fractions import Fraction

from sympy import Mul, Add, S, Symbol, Pow, Rational

from vlib import driver
from vlib import ir as IR
from vlib.driver import Run, pmap, seed
from vlib.model import Model
from vlib.poly import SP
from vlib.tv import compare

FILES = ["adcgen/simplify.py"]
TIMEOUT = 30000
UNAME = "U"
MAXDEG = 6
Q2 = "__q2__"


def quat_matrix(vars_, n):
    """N(q) with N N^T = |q|^4 * 1 as matrix of SP, and |q|^2 as SP."""
    def v(name):
        return SP({(vars_.get(("Y", "q_" + name)),): Fraction(1)})
    if n == 2:
        w, z = v("w"), v("z")
        N = [[w * w - z * z, w * z * (-2)], [w * z * 2, w * w - z * z]]
        q2 = w * w + z * z
    elif n == 3:
        w, x, y, z = v("w"), v("x"), v("y"), v("z")
        N = [[w * w + x * x - y * y - z * z, (x * y - w * z) * 2, (x * z + w * y) * 2],
             [(x * y + w * z) * 2, w * w - x * x + y * y - z * z, (y * z - w * x) * 2],
             [(x * z - w * y) * 2, (y * z + w * x) * 2, w * w - x * x - y * y + z * z]]
        q2 = w * w + x * x + y * y + z * z
    else:
        raise ValueError(n)
    return N, q2


def make_valuation(model, space, reflect):
    from vlib.poly import FreeValuation
    rng_ = model.range_of(space)
    n = len(rng_)
    base = rng_[0]
    cache = {}

    def factory(vars_, model_, spec):
        def get():
            if "N" not in cache:
                N, q2 = quat_matrix(vars_, n)
                if reflect:
                    N[0] = [e * (-1) for e in N[0]]
                cache["N"], cache["q2"] = N, q2
            return cache["N"], cache["q2"]

        def u_entry(val, name, cls, U, L, bks):
            N, _ = get()
            if cls == "N":
                p, q = U
            else:
                p, q = U[0], L[0]
            return N[p - base][q - base].to_ml()

        def q2_sym(val):
            return get()[1].to_ml()
        return FreeValuation(vars_, model_, spec, overrides={UNAME: u_entry},
                             symbol_overrides={Q2: q2_sym})
    return factory


def count_u(term):
    """number of U factors (with exponents) of a sympy term"""
    from adcgen.sympy_objects import SymbolicTensor
    k = 0
    for o in (term.args if isinstance(term, Mul) else (term,)):
        b, e = (o.args if isinstance(o, Pow) else (o, 1))
        if isinstance(b, SymbolicTensor) and b.name == UNAME:
            k += int(e)
    return k


def homogenise(expr, K):
    terms = expr.args if isinstance(expr, Add) else (expr,)
    out = []
    for t in terms:
        if t is S.Zero:
            continue
        k = count_u(t)
        if k > K:
            raise ValueError("more U factors than expected")
        out.append(t * Symbol(Q2) ** (K - k))
    return Add(*out)


def build_case(sd):
    rng = random.Random(sd)
    from adcgen.indices import get_symbols
    from adcgen.sympy_objects import (NonSymmetricTensor, AntiSymmetricTensor, Amplitude,
                                      KroneckerDelta)
    space = rng.choice(["o", "v", "g"])
    names = {"o": "ijklmn", "v": "abcdef", "g": "pqrstu"}[space]
    pool = [get_symbols(c)[0] for c in names[:rng.choice([3, 4, 5])]]
    cls = rng.choice(["N", "A"])

    def U(p, q):
        if cls == "N":
            return NonSymmetricTensor(UNAME, (p, q))
        return AntiSymmetricTensor(UNAME, (p,), (q,))
    nU = rng.randint(2, 5)
    fac = []
    for _ in range(nU):
        p, q = rng.choice(pool), rng.choice(pool)
        u = U(p, q)
        if rng.random() < 0.15:
            u = u ** rng.choice([2, 3])
        fac.append(u)
    rng2 = random.Random(sd * 15485863 + 3)
    if rng2.random() < 0.2 and len(pool) >= 3:
        # two squared U sharing an index that occurs nowhere else (each square resolves to a
        # delta with identical indices, i.e. the dimension of the space), optionally next to an
        # ordinary resolvable pair
        p, q, r = rng2.sample(pool, 3)
        second = rng2.choice([U(r, q), U(q, r)]) if rng2.random() < 0.8 else U(p, q)
        first = U(p, q) if rng2.random() < 0.7 else U(q, p)
        fac = [first ** 2, second ** 2]
        rest = [s_ for s_ in pool if s_ not in (p, q, r)]
        if len(rest) >= 2 and rng2.random() < 0.4:
            fac += [U(p, rest[0]), U(p, rest[1])]
        pool = [s_ for s_ in pool if s_ != q] or pool
    if count_u(Mul(*fac)) > MAXDEG:       # bound on the total degree in U
        fac = fac[:2]
        if count_u(Mul(*fac)) > MAXDEG:
            fac = [U(*rng.sample(pool, 2)), U(*rng.sample(pool, 2))]
    # remainder tensors over the same and other spaces
    other = {"o": "v", "v": "o", "g": "o"}[space]
    opool = [get_symbols(c)[0] for c in {"o": "ijk", "v": "abc"}[other][:2]]
    for _ in range(rng.randint(0, 2)):
        kind = rng.choice(["R1", "R2", "f", "t", "Rinv", "den"])
        if kind == "Rinv":       # an index of the pool on an object with negative exponent
            fac.append(NonSymmetricTensor("r", (rng.choice(pool),)) ** rng.choice([-1, -1, -2]))
        elif kind == "den":      # ... or in an orbital-energy denominator
            fac.append((NonSymmetricTensor("e", (rng.choice(pool),))
                        + NonSymmetricTensor("e", (rng.choice(pool + opool),))) ** -1)
        elif kind == "R1":
            fac.append(NonSymmetricTensor("r", (rng.choice(pool),)))
        elif kind == "R2":
            fac.append(NonSymmetricTensor("c", (rng.choice(pool), rng.choice(pool + opool))))
        elif kind == "f":
            fac.append(AntiSymmetricTensor("f", (rng.choice(pool),), (rng.choice(pool + opool),)))
        else:
            fac.append(AntiSymmetricTensor("w", (rng.choice(pool), rng.choice(opool)),
                                           (rng.choice(pool), rng.choice(opool))))
    if rng.random() < 0.2:
        fac.append(KroneckerDelta(rng.choice(pool), rng.choice(pool)))
    term = Mul(*fac) * rng.choice([1, -1, Rational(1, 2), 2])
    n_terms = rng.choice([1, 1, 2])
    expr = term
    if n_terms == 2:
        p, q, r = rng.sample(pool, 3) if len(pool) >= 3 else (pool * 3)[:3]
        expr = term + U(p, q) * U(p, r) * NonSymmetricTensor("c", (q, r)) * rng.choice([1, -2])
    explicit = rng.random() < 0.5
    allidx = sorted(expr.atoms(type(pool[0])), key=lambda s: s.name)
    target = None
    if explicit:
        target = [s for s in allidx if rng.random() < 0.3]
    ev = rng.random() < 0.5
    return expr, target, ev, space


def run_case(item):
    sd, mtag = item
    from adcgen import Expr
    from adcgen.simplify import simplify_unitary
    expr, target, ev, space = build_case(sd)
    res = {"item": item}
    if expr is S.Zero:
        res["status"] = "skipped"
        return res
    e = Expr(expr, target_idx=target) if target is not None else Expr(expr)
    res["in"] = str(e)
    res["target"] = "einstein" if target is None else " ".join(map(str, target))
    if target is None:
        # Einstein targets must agree between the terms of a sum
        tsets = {tuple(sorted(map(str, t.target))) for t in e.terms}
        if len(tsets) > 1:
            res["status"] = "skipped"
            return res
        tobj = list(e.terms[0].target)
    else:
        tobj = list(target)
    out = simplify_unitary(e.copy(), UNAME, evaluate_deltas=ev)
    res["out"] = str(out)
    res["evaluate_deltas"] = ev
    K = max(count_u(t) for t in (expr.args if isinstance(expr, Add) else (expr,)))
    A = homogenise(e.sympy, K)
    try:
        B = homogenise(out.sympy, K) if out.sympy is not S.Zero else S.Zero
    except ValueError as exc:
        res.update(status="differ", witness={"note": str(exc)})
        return res
    res["changed"] = str(out) != str(e)
    model = Model(*mtag)
    dim = len(model.range_of(space))
    if dim not in (2, 3):
        res["status"] = "skipped"
        return res
    tot = None
    for reflect in (False, True):
        oc = compare(A, B, tobj, model, timeout_ms=TIMEOUT, seed=seed(),
                     valuation_factory=make_valuation(model, space, reflect))
        if tot is None:
            tot = oc.as_dict()
            tot["witness"] = oc.witness
        else:
            for k in ("queries", "unsat", "sat", "unknown", "stage2"):
                tot[k] += getattr(oc, k)
            tot["solver_s"] += oc.solver_s
            tot["encode_s"] += oc.encode_s
            if oc.status != "equal" and tot["status"] == "equal":
                tot["status"] = oc.status
                tot["witness"] = oc.witness
        if oc.status == "differ":
            tot["witness"] = dict(oc.witness or {}, sheet="det -1" if reflect else "det +1")
            break
    res.update(tot)
    res["model"] = model.tag + f" (U on {dim} orbitals)"
    return res


def self_test():
    """The encoding must prove U_pq U_pr c_qr = tr-like identity and refute the
    mixed-position variant (vacuity / sanity guard of the orth valuation)."""
    from adcgen.indices import get_symbols
    from adcgen.sympy_objects import NonSymmetricTensor as N
    p, q, r = get_symbols("pqr")
    model = Model(1, 2)
    good_in = N(UNAME, (p, q)) * N(UNAME, (p, r)) * N("c", (q, r))
    good_out = N("c", (q, q))
    bad_in = N(UNAME, (p, q)) * N(UNAME, (r, p)) * N("c", (q, r))
    ok = []
    for A, B, expect in ((good_in, good_out, "equal"), (bad_in, good_out, "differ")):
        oc = compare(homogenise(A, 2), homogenise(B, 2), [], model, timeout_ms=60000,
                     valuation_factory=make_valuation(model, "g", False), replay=True)
        ok.append(oc.status == expect)
    return all(ok)


def main():
    global TIMEOUT
    ap = argparse.ArgumentParser()
    ap.add_argument("--tier", default="quick")
    ap.add_argument("--replay")
    a = ap.parse_args()
    if a.replay:
        import json
        p = json.load(open(a.replay))
        it = p["item"]
        r = run_case((it[0], tuple(it[1])))
        print(json.dumps({k: r.get(k) for k in ("status", "in", "out", "target", "witness")},
                         indent=1, default=str))
        return 1 if r.get("status") == "differ" else 0
    quick = a.tier == "quick"
    TIMEOUT = 30000 if quick else 180000
    global MAXDEG
    MAXDEG = 6 if quick else 7
    run = Run("C20", a.tier, "translation_validation")
    if not self_test():
        run.harness_error("orthogonal parametrisation self-test failed")
    n = 300 if quick else 4000
    base = seed() * 1000003 + 2000
    mts = [(2, 1), (1, 2), (3, 2), (2, 3), (2, 2)]
    items = [(base + k, mts[k % len(mts)]) for k in range(n)]
    results = pmap(run_case, items, limit=300)
    for r in results:
        st = r.get("status")
        run.add_outcome("simplify_unitary", r,
                        sample={"in": r.get("in", "")[:250], "target": r.get("target"),
                                "evaluate_deltas": r.get("evaluate_deltas"),
                                "out": r.get("out", "")[:250], "model": r.get("model"), "verdict": st}
                        if st == "equal" and r.get("changed") else None,
                        distinct_key=(r.get("in"), r.get("target"), r.get("evaluate_deltas")),
                        nontrivial=bool(r.get("changed")))
        if st == "differ":
            run.violation(f"simplify_unitary:{r['in']}|{r['target']}|{r['evaluate_deltas']}",
                          f"simplify_unitary changed the value: {r['in'][:200]} -> {r['out'][:200]}",
                          {"item": [r["item"][0], list(r["item"][1])], "api": "adcgen.simplify.simplify_unitary",
                           "input": r["in"], "target": r["target"], "output": r["out"],
                           "witness": r.get("witness")})
        if st == "error" and "HarnessError" in r.get("error", ""):
            run.harness_error(r["error"])
    run.cov["functions_encoded"] = [
        {"function": "adcgen.simplify.simplify_unitary (+ evaluate_deltas) run concretely; input and output encoded",
         "source_sha": driver.src_hash(*FILES)}]
    run.cov["bounds"] = {
        "terms": f"2-5 unitary tensors (powers <= 3, total degree <= {MAXDEG}), 0-2 remainder tensors, optional delta, 1-2 terms; first/second position contractions by random wiring over 3-5 index names of one space",
        "unitary space dimension": "2 or 3 (occ, virt or general in models 2o1v, 1o2v, 3o2v, 2o3v; 2o2v only for occ/virt)",
        "sheets": "det +1 and det -1", "shapes": n, "z3_timeout_ms": TIMEOUT}
    run.cov["rule"] = "seeded generator; non-trivial = simplify_unitary changed the expression; distinct = distinct (input, target, evaluate_deltas)"
    run.assumptions += [
        "orthogonal matrices of dimension 2 and 3 only (complete rational parametrisation, homogenised); dimension 4 and higher is outside",
        "expression shapes enumerated by a seeded generator",
    ]
    sys.exit(run.finish())


if __name__ == "__main__":
    main()
